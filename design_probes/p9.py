from datetime import datetime, timedelta
import clk
from pjplan import Task, WBS, ForwardScheduler, BackwardScheduler, Resource, WeeklyCalendar, DirectCalendar, FixedCalendar
def show(s):
    for t in s.schedule.tasks:
        print('   ', t.id, t.start, t.end, t.estimate, t.spent, 'ms' if t.milestone else '')
    for r in s.resource_usage.rows():
        print('      row', r.resource.name, r.date.date(), r.task.id, r.units)
def run(label, w, **kw):
    print('==', label)
    try:
        s=BackwardScheduler(**kw).calc(w); show(s); return s
    except BaseException as e:
        import traceback
        print('  RAISED', type(e).__name__, str(e)[:200]); 
clk.freeze(datetime(2020,1,1))
E=datetime(2026,1,30)  # Fri
w=WBS(); w//Task(1, estimate=10); w//Task(2, estimate=16)
run('two tasks end Fri midnight', w, end=E)
run('end with time-of-day', w, end=datetime(2026,1,30,15))
run('end Sunday', w, end=datetime(2026,2,1))
w=WBS(); a=w//Task(1, estimate=10); b=w//Task(2, estimate=16, predecessors=[a])
run('chain', w, end=E)
# summary succ link
w=WBS(); S=w//Task(1); x=S//Task(2, estimate=8); y=w//Task(3, estimate=8); S.successors=[y]
run('summary successor', w, end=E)
# order problem mirrored
w=WBS(); S=w//Task(2); x=S//Task(3, estimate=8, resource='B'); y=w//Task(4, estimate=8, successors=[x], resource='C'); a=w//Task(1, estimate=24, resource='A'); S.successors=[a]
run('inherit order', w, end=E)
w.roots.move(y, after=a)
run('inherit order2', w, end=E)
# milestone
w=WBS(); a=w//Task(1, estimate=8); m=w//Task(2, milestone=True, successors=[a]); m2=w//Task(3, milestone=True)
run('milestones', w, end=E)
# zero work
w=WBS(); a=w//Task(1, estimate=0); b=w//Task(2, estimate=3, spent=5)
run('zero work', w, end=E)
run('zero work, end Sunday 10:00', w, end=datetime(2026,2,1,10))
# balance off
w=WBS(); a=w//Task(1, estimate=12); b=w//Task(2, estimate=12)
run('balance off', w, end=E, balance_resources=False)
# fractional
r=Resource('R', WeeklyCalendar(units_per_day={0:2.5,1:0.5,3:3}))
w=WBS(); a=w//Task(1, estimate=3.3, resource='R'); b=w//Task(2, estimate=1.1, resource='R')
run('fractional', w, end=E, resources=[r])
# fixed dates
w=WBS(); a=w//Task(1, estimate=8, end=datetime(2026,1,20)); b=w//Task(2, estimate=8, start=datetime(2026,1,2))
run('fixed dates', w, end=E)
