import sys, random, collections, traceback
from gen import *
from fwd import snapshot
EPS = 1e-7
def eff_succs(t):
    out = []
    for x in [t] + list(t.all_parents):
        out += list(x.successors)
    return out
def check_backward(w, resources, end, balance, default_estimate, viol, verbose=False):
    Clock._now = REAL(2020,1,1)
    before = snapshot(w)
    dead = hier_deadlock(w)
    try:
        sch = BackwardScheduler(end=end, resources=list(resources), balance_resources=balance, default_estimate=default_estimate).calc(w)
        if dead: viol['C14:deadlock returned schedule'] += 1; return None
    except RecursionError: viol['C14:RecursionError' + (':deadlock' if dead else '')] += 1; return None
    except RuntimeError as e:
        viol[('ok:deadlock ' if dead else 'ok:') + 'RuntimeError:' + str(e)[:25]] += 1; return None
    except Exception as e:
        viol['C14:' + type(e).__name__] += 1; return None
    if snapshot(w) != before: viol['C06:input mutated'] += 1
    s = sch.schedule; rows = sch.resource_usage.rows(); resmap = {r.name: r for r in sch.resources}
    by_task = collections.defaultdict(list)
    for r in rows: by_task[r.task.id].append(r)
    orig = {t.id: t for t in w.tasks}
    # placement order per resource/day for encoding
    for t in s.tasks:
        o = orig[t.id]; leaf = len(t.children) == 0
        if t.start is None or t.end is None: viol['C06:missing dates'] += 1; continue
        if t.start > t.end: viol['C07:start>end'] += 1
        if t.end > end: viol['C09:ends after project end'] += 1
        for sx in eff_succs(t):
            if sx.start is not None and t.end > sx.start: viol['C09:dependency' + ('' if sx in t.successors else ':inherited')] += 1
        if not leaf:
            if t.start != min(c.start for c in t.children): viol['C07:summary start'] += 1
            if t.end != max(c.end for c in t.children): viol['C07:summary end'] += 1
            if abs(t.estimate - sum(c.estimate for c in t.children)) > EPS: viol['C07:summary estimate'] += 1
            if by_task[t.id]: viol['C04:summary reserves'] += 1
            continue
        if t.milestone:
            if by_task[t.id]: viol['C04:milestone reserves'] += 1
            if t.start != t.end: viol['C02:milestone duration'] += 1
            continue
        est = o.estimate if o.estimate is not None else default_estimate
        sp = o.spent if o.spent is not None else 0
        work = max(est - sp, 0)
        myrows = by_task[t.id]
        if abs(sum(r.units for r in myrows) - work) > EPS * max(1, work): viol['C04:conservation'] += 1
        days = [r.date for r in myrows]
        if len(set(days)) != len(days): viol['C04:twice a day'] += 1
        res = resmap.get(t.resource)
        for r in myrows:
            if r.units <= 0: viol['C03:nonpositive row'] += 1
            if r.resource is not res: viol['C03:wrong resource'] += 1
            if not (day(t.start) <= r.date): viol['C04:row before start'] += 1
            if not (r.date < t.end): viol['C04:row not before end'] += 1
            if r.resource.get_available_units(r.date) <= 0: viol['C03:no capacity day'] += 1
        if myrows:
            first = min(days)
            if not (first <= t.start < first + td(days=1)): viol['C04:start not within first reserved day'] += 1
        # late packing (balance on)
        if balance and res is not None:
            due = min([sx.start for sx in eff_succs(t) if sx.start is not None] + [end])
            usage = collections.defaultdict(float)
            for r in rows:
                if r.resource is res: usage[r.date] += r.units
            d = day(t.end) + td(days=1)
            # days strictly after the day containing end and before due date
            while d + td(days=1) <= due:   # whole day before due
                cap = res.get_available_units(d)
                if cap > 0 and usage[d] < cap - EPS: viol['C09:not late-packed'] += 1; break
                d += td(days=1)
            if myrows:
                d = min(days) + td(days=1)
                while d < max(days):
                    cap = res.get_available_units(d)
                    if cap > 0 and usage[d] < cap - EPS: viol['C09:gap inside task'] += 1; break
                    d += td(days=1)
    per = collections.defaultdict(float)
    for r in rows: per[(r.resource.name, r.date) if balance else (r.resource.name, r.date, r.task.id)] += r.units
    for k, v in per.items():
        if v > resmap[k[0]].get_available_units(k[1]) + EPS: viol['C03:overallocated'] += 1
    return sch
if __name__ == '__main__':
    seed = int(sys.argv[1]) if len(sys.argv) > 1 else 0
    N = int(sys.argv[2]) if len(sys.argv) > 2 else 2000
    viol = collections.Counter(); ex = {}
    for i in range(N):
        rnd = random.Random(seed * 1000003 + i)
        base = REAL(2026,1,1) + td(days=rnd.randint(0, 6), hours=rnd.choice([0,0,0,10,23]))
        w, res = gen_wbs(rnd, base - td(days=20), fixed=False)
        for t in w.tasks:
            if len(t.children): t.start = None
        bal = rnd.random() < 0.7
        de = rnd.choice([0, 0, 4, 1.5])
        before = collections.Counter(viol)
        try: check_backward(w, res, base, bal, de, viol)
        except Exception as e:
            viol['HARNESS:' + type(e).__name__ + str(e)[:40]] += 1
            if 'H' not in ex: ex['H'] = traceback.format_exc()
        for k in viol:
            if viol[k] != before.get(k, 0) and k not in ex: ex[k] = (seed, i)
    for k, v in sorted(viol.items()): print(f'{v:6d} {k}   first={ex.get(k)}')
    if 'H' in ex: print(ex['H'])
