import sys, random, collections, re
from gen import *
from pjplan.task import _Repr
ANSI = re.compile(r'\x1b\[[0-9;:]*m')
seed = int(sys.argv[1]); N = int(sys.argv[2]); viol = collections.Counter(); ex = {}
FIELDS = ['id', 'name', 'resource', 'estimate', 'spent', 'start', 'end', 'predecessors', 'successors', 'parent', 'milestone', 'min_start', 'note', 'nope', 'NAME', 'Start']
for i in range(N):
    rnd = random.Random(seed*1000003+i)
    w, res = gen_wbs(rnd, REAL(2026,1,5), fixed=True, n_max=9)
    ext = Task(900, 'ext'); 
    for t in w.tasks:
        t.name = rnd.choice([None, '', 'x' * rnd.randint(1, 30), 'é日✓ n'])
        if rnd.random() < 0.3: t.note = rnd.choice([None, 'n' * rnd.randint(0, 25), 7])
        if rnd.random() < 0.1 and len(t.children) == 0:
            try: t.predecessors.append(ext)
            except RuntimeError: pass
    fields = rnd.choice([None, rnd.sample(FIELDS, rnd.randint(1, 8))])
    children = rnd.random() < 0.7
    theme = rnd.choice([None, {'header_color': '91m', 'level_colors': ['94m'] * rnd.randint(1, 7)}])
    target = rnd.choice(['wbs', 'task', 'list'])
    tasks = list(w.tasks)
    if target == 'wbs': given = list(w.roots)
    elif target == 'task': given = [rnd.choice(tasks)]
    else: given = rnd.sample(tasks, rnd.randint(0, len(tasks)))
    def v(k): viol[k] += 1; ex.setdefault(k, (seed, i))
    try: out = _Repr.repr(given, fields, children, theme)
    except Exception as e: v('C20:raised ' + type(e).__name__ + str(e)[:40]); continue
    lines = [ANSI.sub('', l) for l in out.split('\n')]
    def rows(t, lvl):
        yield (t, lvl)
        if children:
            for c in t.children: yield from rows(c, lvl + 1)
    exp = [r for g in given for r in rows(g, 0)]
    if len(lines) != 1 + len(exp): v('C20:line count')
    if len(set(map(len, lines))) != 1: v('C20:width')
    fl = fields or ['id', 'name', 'resource', 'estimate', 'spent', 'start', 'end', 'predecessors']
    if 'name' in fl and 'id' in fl and len(lines) == 1 + len(exp):
        # column start of name: computed from header
        hdr = lines[0]
        # find position of ' NAME ' cell start: cells are ' text ' padded; positions by cumulative widths unknown → use header token search (first occurrence of ' NAME')
        pos = hdr.index(' NAME') + 1 if fl.index('name') == [f for f in fl].index('name') else None
        for (t, lvl), line in zip(exp, lines[1:]):
            cell = line[pos:]
            want = '   ' * lvl + (t.name or '')
            if not cell.startswith(want): v('C20:indent/name'); break
    viol['cases'] += 1
for k, v_ in sorted(viol.items()): print(f'{v_:6d} {k}', ex.get(k, ''))
