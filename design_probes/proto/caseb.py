import sys, random, collections
from gen import *
from bwd import check_backward
seed, i = int(sys.argv[1]), int(sys.argv[2])
rnd = random.Random(seed * 1000003 + i)
base = REAL(2026,1,1) + td(days=rnd.randint(0, 6), hours=rnd.choice([0,0,0,10,23]))
w, res = gen_wbs(rnd, base - td(days=20), fixed=False)
for t in w.tasks:
    if len(t.children): t.start = None
bal = rnd.random() < 0.7
de = rnd.choice([0, 0, 4, 1.5])
print('end', base, 'bal', bal, 'de', de, 'res', [(r.name, repr(r.calendar)[:60].replace('\n',' ')) for r in res])
for t in w.tasks:
    print(' IN ', t.id, 'par', t.parent.id if t.parent else None, 'succ', [p.id for p in t.successors], 'res', t.resource, 'est', t.estimate, 'sp', t.spent, 'ms' if t.milestone else '', 'start', t.start, 'min', t.min_start)
viol = collections.Counter()
sch = check_backward(w, res, base, bal, de, viol)
print(dict(viol))
if sch:
    for t in sch.schedule.tasks:
        print(' OUT', t.id, t.start, t.end, t.estimate, t.spent)
    for r in sch.resource_usage.rows(): print('   row', r.resource.name, r.date.date(), r.task.id, r.units, 'cap', r.resource.get_available_units(r.date))
