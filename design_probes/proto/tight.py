import sys, random, collections, traceback
from gen import *
from fwd import snapshot, eff_preds
EPS = 1e-7
def sig(sch):
    return ([(t.id, t.start, t.end, t.estimate, t.spent) for t in sch.schedule.tasks], [(r.resource.name, r.date, r.task.id, r.units) for r in sch.resource_usage.rows()])
def run(w, res, start, now, bal, de, sched=None):
    Clock._now = now
    sched = sched or ForwardScheduler(start=start, resources=list(res), balance_resources=bal, default_estimate=de)
    return sched, sched.calc(w)
def check(w, res, start, now, de, viol):
    if hier_deadlock(w): return
    try: sc, sch = run(w, res, start, now, True, de)
    except RuntimeError: viol['ok:RuntimeError'] += 1; return
    # determinism
    _, sch2 = run(w, res, start, now, True, de, sc)
    if sig(sch) != sig(sch2): viol['C06:same scheduler differs'] += 1
    _, sch3 = run(w, res, start, now, True, de)
    if sig(sch) != sig(sch3): viol['C06:fresh scheduler differs'] += 1
    if now <= start:
        _, sch4 = run(w, res, start, REAL(2001,2,3,4,5), True, de)
        if sig(sch) != sig(sch4): viol['C06:clock dependence'] += 1
    s = sch.schedule; rows = sch.resource_usage.rows(); resmap = {r.name: r for r in sch.resources}
    orig = {t.id: t for t in w.tasks}
    # cumulative usage in placement order
    for t in s.tasks:
        o = orig[t.id]
        if len(t.children) or t.milestone or o.start is not None: continue
        res_ = resmap[t.resource]
        release = max([start, now] + ([o.min_start] if o.min_start else []) + [p.end for p in eff_preds(t) if p.end is not None])
        myrows = [r for r in rows if r.task.id == t.id]
        lastday = max([r.date for r in myrows]) if myrows else day(t.start)
        usage = collections.defaultdict(float)
        for r in rows:
            if r.resource is res_: usage[r.date] += r.units
        d = day(release)
        while d < lastday:
            cap = res_.get_available_units(d)
            if cap > 0 and usage[d] < cap - EPS:
                viol['C08:idle day before last work day'] += 1; break
            d += td(days=1)
        if now <= start and myrows:
            first = min(r.date for r in myrows)
            before = 0.0
            for r in rows:
                if r.task.id == t.id: break
                if r.resource is res_ and r.date == first: before += r.units
            # rows order == placement order; booked before the task on first day
            exp = first + td(hours=24 * (before / res_.get_available_units(first)))
            if abs((t.start - exp).total_seconds()) > 1e-3: viol['C08:start encoding'] += 1
            upto = 0.0
            for r in rows:
                if r.resource is res_ and r.date == lastday: upto += r.units
                if r.task.id == t.id and r.date == lastday: break
            exp = lastday + td(hours=24 * (upto / res_.get_available_units(lastday)))
            if abs((t.end - exp).total_seconds()) > 1e-3: viol['C08:end encoding'] += 1
if __name__ == '__main__':
    seed = int(sys.argv[1]); N = int(sys.argv[2])
    viol = collections.Counter(); ex = {}
    for i in range(N):
        rnd = random.Random(seed * 1000003 + i)
        base = REAL(2026,1,1) + td(days=rnd.randint(0, 6), hours=rnd.choice([0,0,0,10,23]))
        w, res = gen_wbs(rnd, base, fixed=rnd.random()<0.3)
        now = rnd.choice([REAL(2020,1,1), base - td(days=1), base, base + td(days=rnd.randint(0,5), hours=rnd.choice([0, 11]))])
        de = rnd.choice([0, 0, 4, 1.5])
        before = collections.Counter(viol)
        try: check(w, res, base, now, de, viol)
        except Exception as e:
            viol['HARNESS:' + type(e).__name__ + str(e)[:40]] += 1
            if 'H' not in ex: ex['H'] = traceback.format_exc()
        for k in viol:
            if viol[k] != before.get(k, 0) and k not in ex: ex[k] = (seed, i)
    for k, v in sorted(viol.items()): print(f'{v:6d} {k}   first={ex.get(k)}')
    if 'H' in ex: print(ex['H'])
