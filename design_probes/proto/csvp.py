import sys, random, collections, os, tempfile, shutil
from datetime import datetime, timedelta
from pjplan import Task, WBS, read_csv, write_csv
tmp = tempfile.mkdtemp()
CH = list("ab Z09") + list(';"\'\n\r,\t') + list("éЖ日✓\x00 ﻿")
def rtext(rnd):
    if rnd.random() < 0.15: return rnd.choice([None, ''])
    return ''.join(rnd.choice(CH) for _ in range(rnd.randint(1, 8)))
def norm(v): return '' if v is None else v
seed = int(sys.argv[1]); N = int(sys.argv[2]); viol = collections.Counter(); ex = {}
for i in range(N):
    rnd = random.Random(seed*1000003+i)
    w = WBS(); ts = []
    ids = rnd.sample(range(-3, 12), rnd.randint(1, 8))
    for k in ids:
        kw = {}
        for a in ('note', 'owner_x'):
            if rnd.random() < 0.4: kw[a] = rnd.choice([rtext(rnd), 5, 1.5, True, None])
        d0 = datetime(1969,1,1) + timedelta(days=rnd.randint(0, 36500))
        t = Task(k, rtext(rnd), resource=rtext(rnd), start=rnd.choice([None, d0]), end=rnd.choice([None, d0 + timedelta(days=3)]) if d0.year < 2068 else None,
                 estimate=rnd.choice([None, 0, 8, 2.5, 0.05]), spent=rnd.choice([None, 0, 1, 0.1]), milestone=rnd.random() < 0.2,
                 min_start=rnd.choice([None, None, d0]), **kw)
        (rnd.choice(ts) if ts and rnd.random() < 0.5 else w) // t; ts.append(t)
    for _ in range(rnd.randint(0, 6)):
        a, b = rnd.choice(ts), rnd.choice(ts)
        if a is b or a in b.all_parents or b in a.all_parents or b in a.predecessors: continue
        try: a.predecessors.append(b)
        except RuntimeError: pass
    p1, p2, p3 = [os.path.join(tmp, f'{n}.csv') for n in 'abc']
    def v(k): viol[k] += 1; ex.setdefault(k, (seed, i))
    try:
        write_csv(w, p1); r = read_csv(p1); write_csv(r, p2); r2 = read_csv(p2); write_csv(r2, p3)
    except Exception as e:
        v('C13:raised ' + type(e).__name__ + ' ' + str(e)[:40]); continue
    if open(p2, 'rb').read() != open(p3, 'rb').read(): v('C13:not a fixpoint')
    a, b = list(w.tasks), list(r.tasks)
    if [t.id for t in a] != [t.id for t in b]: v('C13:ids/order'); continue
    for x, y in zip(a, b):
        if (x.parent.id if x.parent else None) != (y.parent.id if y.parent else None): v('C13:parent' + (' (parent id 0)' if x.parent and x.parent.id == 0 else ''))
        if [c.id for c in x.children] != [c.id for c in y.children]: v('C13:children order')
        if [p.id for p in x.predecessors] != [p.id for p in y.predecessors]: v('C13:predecessors')
        for f in ('name', 'resource'):
            if norm(getattr(x, f)) != norm(getattr(y, f)): v('C13:' + f)
        for f in ('start', 'end', 'estimate', 'spent', 'milestone', 'min_start'):
            if getattr(x, f) != getattr(y, f): v('C13:' + f)
        for kx in ('note', 'owner_x'):
            if norm(x.__dict__.get(kx)) != norm(y.__dict__.get(kx)) and str(norm(x.__dict__.get(kx))) != str(norm(y.__dict__.get(kx))): v('C13:custom')
    viol['cases'] += 1
shutil.rmtree(tmp)
for k, v_ in sorted(viol.items()): print(f'{v_:6d} {k}', ex.get(k, ''))
