import sys
exec(open('csvp.py').read().split("seed = int(sys.argv[1])")[0])
import random
seed, i = int(sys.argv[1]), int(sys.argv[2])
src = open('csvp.py').read()
body = src.split("for i in range(N):\n")[1].split("    p1, p2, p3")[0]
rnd = None
ns = dict(globals()); ns.update(seed=seed, i=i)
exec("import random\nfor i in [%d]:\n" % i + body, ns)
w = ns['w']
print([(t.id, t.parent.id if t.parent else None) for t in w.tasks])
p = os.path.join(tmp, 'x.csv'); write_csv(w, p); r = read_csv(p)
print([(t.id, t.parent.id if t.parent else None) for t in r.tasks])
