"""Prototype: outcome-following reference model for graph mutators (C15/C16) + invariants."""
import sys, random, collections, copy
from pjplan import Task, WBS

class U:  # universe
    def __init__(self, tasks, wbss):
        self.tasks = tasks; self.wbss = wbss
        self.lab = {id(t): f't{k}' for k, t in enumerate(tasks)}
        self.obj = {f't{k}': t for k, t in enumerate(tasks)}
        self.wlab = {id(w): k for k, w in enumerate(wbss)}
    def L(self, t): return self.lab[id(t)]

def snap(u):
    s = {'T': {}, 'R': {}}
    for t in u.tasks:
        p = t.parent
        s['T'][u.L(t)] = dict(parent=u.lab.get(id(p)) if p is not None else None,
                              children=[u.L(c) for c in t.children],
                              preds=frozenset(u.L(x) for x in t.predecessors if id(x) in u.lab),
                              succs=frozenset(u.L(x) for x in t.successors if id(x) in u.lab),
                              owner=u.wlab.get(id(t.wbs)) if t.wbs is not None else None)
    for w in u.wbss:
        s['R'][u.wlab[id(w)]] = [u.L(c) for c in w.roots]
    return s

def strip_owner(s):
    return ({k: (v['parent'], tuple(v['children']), v['preds'], v['succs']) for k, v in s['T'].items()}, {k: tuple(v) for k, v in s['R'].items()})

# ---- model helpers on a snapshot copy
def m_detach(s, x):
    """remove x from wherever it is listed (parent children or wbs roots)"""
    p = s['T'][x]['parent']
    if p is not None and x in s['T'][p]['children']: s['T'][p]['children'].remove(x)
    for r in s['R'].values():
        if x in r: r.remove(x)
def subtree(s, x, seen=None):
    seen = set() if seen is None else seen
    if x in seen: return []
    seen.add(x)
    out = [x]
    for c in s['T'][x]['children']: out += subtree(s, c, seen)
    return out
def m_set_owner(s, x, w):
    for y in subtree(s, x): s['T'][y]['owner'] = w
def m_attach_last(s, x, parent=None, wroot=None):
    m_detach(s, x)
    if parent is not None:
        s['T'][parent]['children'].append(x); s['T'][x]['parent'] = parent; m_set_owner(s, x, s['T'][parent]['owner'])
    elif wroot is not None:
        s['R'][wroot].append(x); s['T'][x]['parent'] = None; m_set_owner(s, x, wroot)
    else:
        s['T'][x]['parent'] = None
def uniq(l):
    out = []
    for x in l:
        if x is not None and x not in out: out.append(x)
    return out
def m_set_children(s, holder, L):
    """holder: ('t', label) or ('w', idx)."""
    L = uniq(L)
    cur = s['T'][holder[1]]['children'] if holder[0] == 't' else s['R'][holder[1]]
    for old in list(cur):
        if old not in L:
            cur.remove(old); s['T'][old]['parent'] = None; m_set_owner(s, old, None)
    for x in L: m_detach(s, x)
    cur = s['T'][holder[1]]['children'] if holder[0] == 't' else s['R'][holder[1]]
    cur[:] = []
    for x in L:
        cur.append(x)
        s['T'][x]['parent'] = holder[1] if holder[0] == 't' else None
        m_set_owner(s, x, s['T'][holder[1]]['owner'] if holder[0] == 't' else holder[1])
def m_set_links(s, t, L, kind):
    other = 'succs' if kind == 'preds' else 'preds'
    new = frozenset(uniq(L)); old = s['T'][t][kind]
    for p in old - new: s['T'][p][other] = s['T'][p][other] - {t}
    for p in new - old: s['T'][p][other] = s['T'][p][other] | {t}
    s['T'][t][kind] = new

def holder_list(s, holder):
    return s['T'][holder[1]]['children'] if holder[0] == 't' else s['R'][holder[1]]

def expected(s0, op):
    """returns list of admissible states (owner included) for an accepted call, or None = unspecified."""
    s = copy.deepcopy(s0); k = op[0]
    if k == 'parent=':
        _, t, p = op
        if p is None:
            w = s['T'][t]['owner']
            if s['T'][t]['parent'] is None and w is not None:   # already a root of w: stays or goes last
                a = copy.deepcopy(s); m_attach_last(a, t, wroot=w); return [s, a]
            m_attach_last(s, t, wroot=w) if w is not None else m_attach_last(s, t); return [s]
        if s['T'][t]['parent'] == p:
            a = copy.deepcopy(s); m_attach_last(a, t, parent=p); return [s, a]
        m_attach_last(s, t, parent=p); return [s]
    if k == 'children=':   # holder, L
        m_set_children(s, op[1], op[2]); return [s]
    if k == 'append':
        _, holder, x = op
        if holder[0] == 't': m_attach_last(s, x, parent=holder[1])
        else: m_attach_last(s, x, wroot=holder[1])
        return [s]
    if k == 'floordiv':    # holder // L  == children = children + L
        _, holder, L = op
        cur = list(holder_list(s, holder))
        for x in uniq(L):
            if holder[0] == 't': m_attach_last(s, x, parent=holder[1])
            else: m_attach_last(s, x, wroot=holder[1])
        return [s]
    if k == 'list.remove':
        _, holder, x = op
        cur = holder_list(s, holder)
        if x in cur:
            cur.remove(x); s['T'][x]['parent'] = None; m_set_owner(s, x, None)
        return [s]
    if k == 'insert':
        _, holder, i, x = op
        cur = holder_list(s, holder)
        if x in cur or not (0 <= i <= len(cur)): return None
        if holder[0] == 't': m_attach_last(s, x, parent=holder[1])
        else: m_attach_last(s, x, wroot=holder[1])
        cur = holder_list(s, holder); cur.remove(x); cur.insert(i, x); return [s]
    if k == 'move':
        _, holder, xs, before, after = op
        xs = uniq(xs); cur = holder_list(s, holder)
        anchor = before if before is not None else after
        rest = [c for c in cur if c not in xs]
        if anchor in xs: return None
        i = rest.index(anchor) + (0 if before is not None else 1)
        import itertools
        outs = []
        for perm in ([xs, xs[::-1]] if len(xs) > 1 else [xs]):
            a = copy.deepcopy(s); c = holder_list(a, holder); c[:] = rest[:i] + list(perm) + rest[i:]; outs.append(a)
        return outs
    if k == 'sort':
        _, holder, keyf, rev = op
        cur = holder_list(s, holder); cur[:] = sorted(cur, key=keyf, reverse=rev); return [s]
    if k == 'reorder':
        _, holder, labels = op
        cur = holder_list(s, holder)
        if len(set(labels)) != len(labels): return None
        cur[:] = list(labels) + [c for c in cur if c not in labels]; return [s]
    if k in ('preds=', 'succs='):
        m_set_links(s, op[1], op[2], 'preds' if k == 'preds=' else 'succs'); return [s]
    if k in ('preds+', 'succs+'):
        kind = 'preds' if k == 'preds+' else 'succs'
        m_set_links(s, op[1], list(s['T'][op[1]][kind]) + list(op[2]), kind); return [s]
    if k in ('preds-', 'succs-'):
        kind = 'preds' if k == 'preds-' else 'succs'
        m_set_links(s, op[1], [x for x in s['T'][op[1]][kind] if x != op[2]], kind); return [s]
    if k == 'wbs.remove':
        _, w, x = op
        if s['T'][x]['owner'] == w:     # member (model trusts owner==reachability; only used when C11 holds)
            m_detach(s, x); s['T'][x]['parent'] = None; m_set_owner(s, x, None)
        return [s]
    return None
