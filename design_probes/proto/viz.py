import sys, random, collections, json, re, html
from html.parser import HTMLParser
from gen import *
from pjplan import MermaidGantt, MermaidNetwork, DhtmlxGantt
class Doc(HTMLParser):
    def __init__(self):
        super().__init__(convert_charrefs=True); self.stack = []; self.mermaid = []; self.scripts = []; self._cur = None
    def handle_starttag(self, tag, attrs):
        self.stack.append((tag, dict(attrs)))
        if tag == 'script': self.scripts.append('')
    def handle_endtag(self, tag):
        for i in range(len(self.stack)-1, -1, -1):
            if self.stack[i][0] == tag: del self.stack[i:]; break
    def handle_data(self, data):
        if any(t == 'div' and a.get('class') == 'mermaid' for t, a in self.stack): self.mermaid.append(data)
        if self.stack and self.stack[-1][0] == 'script': self.scripts[-1] += data
ALPHA = list("abcXYZ 019") + list("'\"{}<>$:") + list("éЖ日✓")
HOSTILE = ['<!--', '</script>', '<script>', '</div>', '}}', '-->', '${x}', '$$', '$src', '{{', ' --> 9{{z', '":"', '<b>']
def rname(rnd, hostile):
    n = ''.join(rnd.choice(ALPHA[:10] if not hostile else ALPHA) for _ in range(rnd.randint(1, 10)))
    if hostile and rnd.random() < 0.5: 
        k = rnd.randrange(len(n)+1); n = n[:k] + rnd.choice(HOSTILE) + n[k:]
    return n
GLINE = re.compile(r'^    (?P<name>[^:\n]*): (?P<state>(?:milestone,|done,|active,)?) id_(?P<id>-?\d+), (?P<s>\d\d\.\d\d\.\d{4} \d\d:\d\d), (?P<e>\d\d\.\d\d\.\d{4} \d\d:\d\d)$')
def check(s, hostile, viol, ex, tag):
    tasks = list(s.tasks)
    def v(k):
        viol[k + (':hostile' if hostile else ':benign')] += 1; ex.setdefault(k + (':hostile' if hostile else ':benign'), tag)
    # gantt
    try:
        doc = MermaidGantt(s).to_html(); d = Doc(); d.feed(doc); d.close()
        src = ''.join(d.mermaid).split('\n')
        got = collections.Counter(); bad = 0
        for line in src:
            if line.startswith('    '):
                m = GLINE.match(line)
                if not m: bad += 1; continue
                got[(int(m['id']), m['s'], m['e'], m['state'] == 'milestone,')] += 1
        exp = collections.Counter((t.id, t.start.strftime('%d.%m.%Y %H:%M'), t.end.strftime('%d.%m.%Y %H:%M'), bool(t.milestone)) for t in tasks)
        if bad or got != exp: v('C19:gantt')
    except Exception as e: v('C19:gantt raised ' + type(e).__name__)
    # network
    try:
        doc = MermaidNetwork(s).to_html(); d = Doc(); d.feed(doc); d.close()
        src = ''.join(d.mermaid).split('\n')
        got = collections.Counter(); bad = 0
        def node(line, pos):
            m = re.compile(r'(-?\d+)\{\{').match(line, pos)
            if not m: return None
            end = line.find('}}', m.end())
            if end < 0: return None
            return int(m.group(1)), end + 2
        for line in src:
            if not line.startswith('  ') or line.startswith('style'): continue
            if line.startswith('  0((Start)) --> '):
                n = node(line, len('  0((Start)) --> '))
                if not n or n[1] != len(line): bad += 1; continue
                got[('S', n[0])] += 1
            else:
                a = node(line, 2)
                if not a or not line.startswith(' --> ', a[1]): bad += 1; continue
                b = node(line, a[1] + 5)
                if not b or b[1] != len(line): bad += 1; continue
                got[(a[0], b[0])] += 1
        exp = collections.Counter()
        for t in tasks:
            if len(t.predecessors) == 0: exp[('S', t.id)] += 1
            for p in t.predecessors: exp[(p.id, t.id)] += 1
        if bad or got != exp: v('C19:network')
    except Exception as e: v('C19:network raised ' + type(e).__name__)
    # dhtmlx
    try:
        doc = DhtmlxGantt(s).to_html(); d = Doc(); d.feed(doc); d.close()
        sc = [x for x in d.scripts if 'gantt.parse(' in x]
        if len(sc) != 1: v('C19:dhtmlx script count'); return
        i = sc[0].index('gantt.parse(') + len('gantt.parse(')
        obj, _ = json.JSONDecoder().raw_decode(sc[0], i)
        ids = collections.Counter(e['id'] for e in obj['data'])
        if ids != collections.Counter(t.id for t in tasks): v('C19:dhtmlx entries')
        tm = {t.id: t for t in tasks}
        for e in obj['data']:
            t = tm[e['id']]
            if e['text'] != t.name or e['start_date'] != t.start.strftime('%d-%m-%Y %H:%M') or e['end_date'] != t.end.strftime('%d-%m-%Y %H:%M'): v('C19:dhtmlx fields')
            if e['parent'] != (t.parent.id if t.parent else 0): v('C19:dhtmlx parent')
            if not (0 <= e['progress'] <= 1): v('C19:dhtmlx progress')
        lk = collections.Counter((l['source'], l['target']) for l in obj['links'])
        if lk != collections.Counter((p.id, t.id) for t in tasks for p in t.predecessors): v('C19:dhtmlx links')
        if len(set(l['id'] for l in obj['links'])) != len(obj['links']): v('C19:dhtmlx link ids')
    except Exception as e: v('C19:dhtmlx raised ' + type(e).__name__ + str(e)[:30])
    # repr_html
    for R in (MermaidGantt, MermaidNetwork, DhtmlxGantt):
        try:
            r = R(s); h = r._repr_html_(); m = re.fullmatch(r'<iframe srcdoc="([^"]*)" width="100%" height="\d+" style="border:none !important;" allowfullscreen webkitallowfullscreen mozallowfullscreen></iframe>', h, re.S)
            if not m or html.unescape(m.group(1)) != r.to_html(): v('C19:repr_html')
        except Exception as e: pass
if __name__ == '__main__':
    seed = int(sys.argv[1]); N = int(sys.argv[2]); viol = collections.Counter(); ex = {}; n_ok = 0
    for i in range(N):
        rnd = random.Random(seed*1000003+i)
        base = REAL(2026,1,5); hostile = i % 2 == 1
        w, res = gen_wbs(rnd, base, fixed=False, n_max=7)
        if hier_deadlock(w): continue
        for t in w.tasks:
            t.name = rname(rnd, hostile)
            # dedupe links
            t.predecessors = list({id(p): p for p in t.predecessors}.values())
            if rnd.random() < 0.3: t.gantt_section = rnd.choice(['S1', 'S2'])
        Clock._now = rnd.choice([REAL(2020,1,1), REAL(2026,1,7,10), REAL(2030,1,1)])
        try: s = ForwardScheduler(start=base, resources=res).calc(w).schedule
        except RuntimeError: continue
        n_ok += 1
        check(s, hostile, viol, ex, (seed, i))
    print('cases', n_ok)
    for k, v in sorted(viol.items()): print(f'{v:6d} {k}   first={ex.get(k)}')
