import sys, random, re
from gen import *
from pjplan.task import _Repr
src = open('sheet.py').read()
i = int(sys.argv[1])
body = src.split("for i in range(N):\n")[1].split("    def v(k)")[0]
ns = dict(globals()); ns.update(FIELDS=['id', 'name', 'resource', 'estimate', 'spent', 'start', 'end', 'predecessors', 'successors', 'parent', 'milestone', 'min_start', 'note', 'nope', 'NAME', 'Start'], seed=0)
exec("import random\nfor i in [%d]:\n" % i + body, ns)
print(ns['fields'], ns['children'], ns['target'])
out = _Repr.repr(ns['given'], ns['fields'], ns['children'], ns['theme'])
for l in out.split('\n'): print(repr(re.sub(r'\x1b\[[0-9;:]*m', '', l)))
