import sys, random, collections, re
from pjplan import Task, WBS
MISSING = object()
def getv(t, k):
    if k == 'id': return t.id
    if k == 'parent_id': return t.parent.id if t.parent else None
    if k in ('estimate', 'spent'): return getattr(t, k)
    return t.__dict__.get(k)   # absent -> None
def ref(t, k, v):
    for suf in ['_not_like_', '_like_', '_not_in_', '_is_not_none_', '_is_none_', '_in_', '_ne_', '_le_', '_lt_', '_ge_', '_gt_']:
        if k.endswith(suf):
            a = getv(t, k[:-len(suf)])
            if suf == '_not_like_': return a is not None and not re.search(v, a)
            if suf == '_like_': return a is not None and bool(re.search(v, a))
            if suf == '_not_in_': return a not in v
            if suf == '_in_': return a in v
            if suf == '_is_none_': return a is None
            if suf == '_is_not_none_': return a is not None
            if a is None: return False
            import operator
            return {'_ne_': operator.ne, '_le_': operator.le, '_lt_': operator.lt, '_ge_': operator.ge, '_gt_': operator.gt}[suf](a, v)
    return getv(t, k) == v
seed = int(sys.argv[1]); N = int(sys.argv[2]); viol = collections.Counter(); ex = {}; nq = 0
for i in range(N):
    rnd = random.Random(seed*1000003+i)
    w = WBS(); ts = []
    for k in range(rnd.randint(1, 8)):
        kw = {}
        if rnd.random() < 0.6: kw['tag'] = rnd.choice([None, 'x', 'yy', 'xy'])
        if rnd.random() < 0.5: kw['prio'] = rnd.choice([None, 1, 2, 3])
        t = Task(k+1, rnd.choice([None, 'alpha', 'beta', 'ab']), resource=rnd.choice([None, 'R1', 'R2']), estimate=rnd.choice([None, 0, 1, 2.5, 8]), spent=rnd.choice([None, 0, 1]), milestone=rnd.random() < 0.2, **kw)
        (rnd.choice(ts) if ts and rnd.random() < 0.5 else w) // t
        ts.append(t)
    lst = rnd.choice([w.tasks, w.roots, rnd.choice(ts).children, w.tasks(lambda t: True)])
    for q in range(6):
        kw = {}
        for _ in range(rnd.randint(1, 3)):
            attr = rnd.choice(['id', 'parent_id', 'name', 'resource', 'estimate', 'spent', 'milestone', 'tag', 'prio', 'nope'])
            num = attr in ('id', 'parent_id', 'estimate', 'spent', 'prio')
            strv = attr in ('name', 'resource', 'tag')
            kinds = ['', '_in_', '_not_in_', '_is_none_', '_is_not_none_', '_ne_'] + (['_lt_', '_le_', '_gt_', '_ge_'] if num else []) + (['_like_', '_not_like_'] if strv else [])
            kind = rnd.choice(kinds)
            if kind in ('_is_none_', '_is_not_none_'): v = True
            elif kind in ('_in_', '_not_in_'): v = rnd.sample([None, 1, 2, 3, 'x', 'alpha', 'R1', 0, 2.5, True], 3)
            elif kind in ('_like_', '_not_like_'): v = rnd.choice(['a', '^a', 'x$', 'R\\d', 'b|y'])
            elif num: v = rnd.choice([0, 1, 2, 2.5, 3])
            elif attr == 'milestone': v = rnd.choice([True, False])
            elif kind == '_ne_': v = rnd.choice(['x', 'alpha', 'R1', 'ab'])
            else: v = rnd.choice([None, 'x', 'alpha', 'R1', 'ab'])
            kw[attr + kind] = v
        exp = [t for t in lst if all(ref(t, k, v) for k, v in kw.items())]
        try:
            got = list(lst(**kw)); nq += 1
        except Exception as e:
            k = 'C18:raised ' + type(e).__name__; viol[k] += 1; ex.setdefault(k, (seed, i, kw)); continue
        if [id(t) for t in got] != [id(t) for t in exp]:
            k = 'C18:' + ','.join(sorted(kw)); viol[k] += 1; ex.setdefault(k, (seed, i, kw))
print('queries', nq)
agg = collections.Counter()
for k, v in viol.items():
    agg['estimate/spent involved' if ('estimate' in k or 'spent' in k) else k] += v
for k, v in sorted(agg.items()): print(f'{v:6d} {k}', ex.get(k, ''))
