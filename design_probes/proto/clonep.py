import sys, random, collections
from gstruct import *
def pub(t, scope):
    return (t.id, t.parent.id if t.parent else None, tuple(c.id for c in t.children), tuple(sorted((p.id, id(p) in scope) for p in t.predecessors)), tuple(sorted((s.id, id(s) in scope) for s in t.successors)), tuple(sorted((k, repr(v)) for k, v in t.to_dict().items())))
viol = collections.Counter(); ex = {}
seed = int(sys.argv[1]); N = int(sys.argv[2])
for i in range(N):
    rnd = random.Random(seed*1000003+i)
    n = rnd.randint(2, 8)
    tasks = [Task(k+1, f't{k}', x=rnd.choice([None, 'a', 5])) for k in range(n)]
    wbss = [WBS(), WBS()]
    ok = True
    for step in range(rnd.randint(3, 25)):
        name, op = rand_op(rnd, tasks, wbss)
        if 'insert' in name or 'move' in name or 'remove' in name or 'roots=' in name or name=='children=': continue
        try: op()
        except Exception: pass
        if invariants(tasks, wbss, None): ok = False; break
    if not ok: viol['skip:broken state'] += 1; continue
    w = wbss[0]
    members = list(w.tasks)
    if not members: viol['skip:empty'] += 1; continue
    scope = set(map(id, members))
    before = [pub(t, scope) for t in members]
    extb = {id(t): (tuple(map(id, t.predecessors)), tuple(map(id, t.successors))) for t in tasks if id(t) not in scope}
    w.note = 'n'
    try: c = w.clone()
    except Exception as e:
        viol['C10:clone raised ' + type(e).__name__ + ' ' + str(e)[:40]] += 1; ex.setdefault('C10:clone raised ' + type(e).__name__+ ' ' + str(e)[:40], (seed, i)); continue
    if [pub(t, scope) for t in members] != before: k='C10:source changed'; viol[k]+=1; ex.setdefault(k,(seed,i))
    cm = list(c.tasks); cscope = set(map(id, cm))
    if any(id(t) in scope for t in cm): k='C10:shared task object'; viol[k]+=1; ex.setdefault(k,(seed,i))
    if [pub(t, cscope) for t in cm] != before:
        k='C10:copy differs'; viol[k]+=1; ex.setdefault(k,(seed,i))
        if len(sys.argv)>3: print(before); print([pub(t, cscope) for t in cm])
    if any(t.wbs is not c for t in cm): k='C10:owner'; viol[k]+=1; ex.setdefault(k,(seed,i))
    if getattr(c, 'note', None) != 'n': k='C10:wbs attr'; viol[k]+=1; ex.setdefault(k,(seed,i))
    # external links attached to same outside tasks
    for t, ct in zip(members, cm):
        eo = sorted(id(p) for p in t.predecessors if id(p) not in scope); ec = sorted(id(p) for p in ct.predecessors if id(p) not in cscope)
        if eo != ec: k='C10:external preds differ'; viol[k]+=1; ex.setdefault(k,(seed,i))
        eo = sorted(id(p) for p in t.successors if id(p) not in scope); ec = sorted(id(p) for p in ct.successors if id(p) not in cscope)
        if eo != ec: k='C10:external succs differ'; viol[k]+=1; ex.setdefault(k,(seed,i))
    viol['ok:cloned'] += 1
for k, v in sorted(viol.items()): print(f'{v:6d} {k}   first={ex.get(k)}')
