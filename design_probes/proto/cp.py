import sys, random, collections
from fractions import Fraction as Fr
from pjplan import Task, WBS
def oracle(w):
    tasks = list(w.tasks); leaves = [t for t in tasks if len(t.children) == 0]
    member = set(map(id, tasks))
    def leafset(p): return [p] if len(p.children) == 0 else [x for x in p.all_children if len(x.children) == 0]
    dur = {id(t): max(Fr(str(t.estimate if t.estimate is not None else 0)) - Fr(str(t.spent if t.spent is not None else 0)), 0) for t in leaves}
    preds = {}
    for t in leaves:
        ps = []
        for x in [t] + list(t.all_parents):
            for p in x.predecessors:
                if id(p) in member: ps += leafset(p)
        preds[id(t)] = list({id(p): p for p in ps}.values())
    succs = collections.defaultdict(list)
    for t in leaves:
        for p in preds[id(t)]: succs[id(p)].append(t)
    ef = {}
    def EF(t):
        if id(t) not in ef: ef[id(t)] = max([EF(p) for p in preds[id(t)]] + [Fr(0)]) + dur[id(t)]
        return ef[id(t)]
    tail = {}
    def TAIL(t):
        if id(t) not in tail: tail[id(t)] = max([dur[id(s)] + TAIL(s) for s in succs[id(t)]] + [Fr(0)])
        return tail[id(t)]
    if not leaves: return set()
    total = max(EF(t) for t in leaves)
    return {t.id for t in leaves if EF(t) + TAIL(t) == total}
seed = int(sys.argv[1]); N = int(sys.argv[2]); summary_links = len(sys.argv) > 3
viol = collections.Counter(); ex = {}
for i in range(N):
    rnd = random.Random(seed*1000003+i)
    w = WBS(); ts = []
    for k in range(rnd.randint(1, 9)):
        est = rnd.choice([None, 0, 1, 2, 3, 0.1, 0.2, 0.3, 0.7, 1.1, 2.35, 0.05, 8])
        t = Task(k+1, estimate=est, spent=rnd.choice([None, None, 0, 0.1, 1, 5]))
        (rnd.choice(ts) if ts and rnd.random() < 0.4 else w) // t; ts.append(t)
    for _ in range(rnd.randint(0, 12)):
        a, b = rnd.choice(ts), rnd.choice(ts)
        if a is b or a in b.all_parents or b in a.all_parents: continue
        if not summary_links and (len(a.children) or len(b.children)): continue
        try: a.predecessors.append(b)
        except RuntimeError: pass
    if not summary_links:
        for t in ts:
            if len(t.children): t.predecessors = []; t.successors = []
    # deadlock filter
    from gen import hier_deadlock
    if hier_deadlock(w): continue
    exp = oracle(w)
    try: got = {t.id for t in w.critical_path()}
    except Exception as e:
        k = 'C12:raised ' + type(e).__name__; viol[k] += 1; ex.setdefault(k, (seed, i)); continue
    if got != exp:
        k = 'C12:empty' if not got else ('C12:missing' if got < exp else ('C12:extra' if got > exp else 'C12:differs')); viol[k] += 1; ex.setdefault(k, (seed, i))
    else: viol['ok'] += 1
for k, v in sorted(viol.items()): print(f'{v:6d} {k}', ex.get(k, ''))
