import sys, random, collections
from datetime import datetime, timedelta
from pjplan import WeeklyCalendar, DirectCalendar, FixedCalendar, Resource
td = timedelta
BASE = datetime(2026,1,5)
def gen(rnd, depth):
    k = rnd.random()
    if depth == 0 or k < 0.45:
        c = rnd.randrange(4)
        if c == 0:
            days = sorted(rnd.sample(range(7), rnd.randint(0, 7))); u = rnd.choice([0, 1, 8, 2.5])
            st = rnd.choice([None, BASE + td(days=rnd.randint(-10, 5), hours=rnd.choice([0, 13]))]); en = rnd.choice([None, BASE + td(days=rnd.randint(5, 20), hours=rnd.choice([0, 13]))])
            return ('W', days, u, st, en)
        if c == 1:
            m = {d: rnd.choice([0, 1, 8, 2.5]) for d in rnd.sample(range(7), rnd.randint(0, 7))}
            return ('WD', m, None, None)
        if c == 2:
            return ('D', {BASE + td(days=rnd.randint(-10, 20), hours=rnd.choice([0, 0, 9])): rnd.choice([0, 1, 4, 0.5]) for _ in range(rnd.randint(0, 12))})
        st = rnd.choice([None, BASE + td(days=rnd.randint(-10, 5), hours=rnd.choice([0, 13]))]); en = rnd.choice([None, BASE + td(days=rnd.randint(5, 20), hours=rnd.choice([0, 13]))])
        return ('F', rnd.choice([0, 1, 3, 0.5]), st, en)
    op = rnd.choice('+-*/|')
    a = gen(rnd, depth-1)
    b = ('S', rnd.choice([0, 1, 2, 0.5, 3])) if rnd.random() < 0.35 else gen(rnd, depth-1)
    if op == '/' and b[0] == 'S' and b[1] == 0: b = ('S', 2)
    return (op, a, b)
def build(ast):
    k = ast[0]
    if k == 'W': return WeeklyCalendar(start=ast[3], end=ast[4], days=ast[1], units_per_day=ast[2])
    if k == 'WD': return WeeklyCalendar(units_per_day=dict(ast[1]))
    if k == 'D': return DirectCalendar(dict(ast[1]))
    if k == 'F': return FixedCalendar(ast[1], ast[2], ast[3])
    if k == 'S': return ast[1]
    a, b = build(ast[1]), build(ast[2])
    return {'+': lambda: a + b, '-': lambda: a - b, '*': lambda: a * b, '/': lambda: a / b, '|': lambda: a | b}[k]()
class DivZero(Exception): pass
def ev(ast, d):
    k = ast[0]
    if k == 'W':
        if ast[3] is not None and d < ast[3]: return None
        if ast[4] is not None and d > ast[4]: return None
        return ast[2] if d.weekday() in ast[1] else 0
    if k == 'WD': return ast[1].get(d.weekday(), 0)
    if k == 'D':
        m = {datetime(x.year, x.month, x.day): v for x, v in ast[1].items()}   # later key wins? dict comprehension order
        return m.get(datetime(d.year, d.month, d.day))
    if k == 'F':
        if ast[2] is not None and d < ast[2]: return 0
        if ast[3] is not None and d > ast[3]: return 0
        return ast[1]
    if k == 'S': return ast[1]
    a, b = ev(ast[1], d), ev(ast[2], d)
    if k == '|':
        for x in (a, b):
            if x is not None and x > 0: return x
        return None
    if a is None and b is None: return None
    if a is None: return b if k != '-' or b >= 0 else None     # single operand passes through (sub: clamp applies)
    if b is None: return a
    if k == '+': return a + b
    if k == '*': return a * b
    if k == '-': return a - b if a - b >= 0 else None
    if b == 0: raise DivZero()
    return a / b
seed = int(sys.argv[1]); N = int(sys.argv[2]); viol = collections.Counter(); ex = {}; n = 0; dz = 0
for i in range(N):
    rnd = random.Random(seed*1000003+i)
    ast = gen(rnd, 3)
    try: cal = build(ast)
    except Exception as e:
        k = 'C17:build raised ' + type(e).__name__ + ' ' + str(e)[:30]; viol[k] += 1; ex.setdefault(k, (seed, i, ast)); continue
    if not hasattr(cal, 'get_available_units'): continue
    for j in range(30):
        d = BASE + td(days=rnd.randint(-15, 25), hours=rnd.choice([0, 0, 13, 23]), microseconds=rnd.choice([0, 0, 1]))
        try: exp = ev(ast, d)
        except DivZero: dz += 1; continue
        try: got = cal.get_available_units(d)
        except Exception as e:
            k = 'C17:eval raised ' + type(e).__name__; viol[k] += 1; ex.setdefault(k, (seed, i, ast, d)); continue
        n += 1
        if got != exp and not (got is not None and exp is not None and abs(got-exp) < 1e-9):
            k = 'C17:value ' + ast[0]; viol[k] += 1; ex.setdefault(k, (seed, i, ast, d, got, exp))
    # search
    r = Resource('r', cal)
    for j in range(4):
        d0 = BASE + td(days=rnd.randint(-15, 25), hours=rnd.choice([0, 13])); md = rnd.choice([0, 1, 5, 40]); dirn = rnd.choice([1, -1])
        try:
            cap = lambda x: (lambda v: 0 if v is None else v)(ev(ast, x))
            exp = None
            for o in range(md):
                x = d0 + td(days=o*dirn)
                if cap(x if dirn > 0 else x - td(days=1)) > 0: exp = x; break
        except DivZero: continue
        try: got = r.get_nearest_availability_date(d0, dirn, md)
        except RuntimeError: got = None
        except Exception as e:
            k = 'C17:search raised ' + type(e).__name__; viol[k] += 1; ex.setdefault(k, (seed, i)); continue
        if got != exp: k = 'C17:search'; viol[k] += 1; ex.setdefault(k, (seed, i, ast, d0, dirn, md, got, exp))
print('evals', n, 'divzero skipped', dz)
for k, v in sorted(viol.items()): print(f'{v:6d} {k}', str(ex.get(k, ''))[:400])
