import sys, random, collections, traceback
from gen import *
EPS = 1e-7
def snapshot(w):
    return [(t.id, t.parent.id if t.parent else None, [c.id for c in t.children], [p.id for p in t.predecessors], [s.id for s in t.successors], sorted((k, repr(v)) for k, v in t.to_dict().items()), t.estimate, t.spent) for t in w.tasks]

def eff_preds(t):
    out = []
    for x in [t] + list(t.all_parents):
        for p in x.predecessors:
            out.append(p)
    return out

def check_forward(w, resources, start, now, balance, default_estimate, viol):
    Clock._now = now
    before = snapshot(w)
    dead = hier_deadlock(w)
    if dead:
        try:
            ForwardScheduler(start=start, resources=list(resources), balance_resources=balance, default_estimate=default_estimate).calc(w)
            viol['C14:deadlock returned schedule'] += 1
        except RecursionError: viol['C14:deadlock RecursionError'] += 1
        except RuntimeError: viol['ok:deadlock RuntimeError'] += 1
        except Exception as e: viol['C14:deadlock ' + type(e).__name__] += 1
        return None
    try:
        sch = ForwardScheduler(start=start, resources=list(resources), balance_resources=balance, default_estimate=default_estimate).calc(w)
    except RecursionError as e:
        viol['C14:RecursionError'] += 1; return None
    except RuntimeError as e:
        viol['ok:RuntimeError:' + str(e)[:25]] += 1
        if snapshot(w) != before: viol['C06:input mutated on raise'] += 1
        return None
    except Exception as e:
        viol['C14:' + type(e).__name__] += 1; return None
    if snapshot(w) != before: viol['C06:input mutated'] += 1
    s = sch.schedule
    rows = sch.resource_usage.rows()
    resmap = {r.name: r for r in sch.resources}
    by_task = collections.defaultdict(list)
    for r in rows: by_task[r.task.id].append(r)
    orig = {t.id: t for t in w.tasks}
    lb0 = max(day(start), day(now))
    for t in s.tasks:
        o = orig[t.id]
        leaf = len(t.children) == 0
        if t.start is None or t.end is None: viol['C06:missing dates'] += 1; continue
        if t.start > t.end: viol['C07:start>end' + (':fixedstart' if o.start is not None and leaf else '')] += 1
        if not leaf:
            cs = min(c.start for c in t.children); ce = max(c.end for c in t.children)
            if t.start != cs: viol['C07:summary start'] += 1
            if t.end != ce: viol['C07:summary end'] += 1
            if abs(t.estimate - sum(c.estimate for c in t.children)) > EPS: viol['C07:summary estimate'] += 1
            if abs(t.spent - sum(c.spent for c in t.children)) > EPS: viol['C07:summary spent'] += 1
            if by_task[t.id]: viol['C04:summary reserves'] += 1
            continue
        # leaf
        preds = eff_preds(t)
        pred_ends = []
        for p in preds:
            pp = p if p.wbs is s else p  # external preds keep their own dates
            if p.end is not None: pred_ends.append(p.end)
        if t.milestone:
            exp = max(pred_ends + [start])
            if not (t.start == t.end == exp): viol['C02:milestone placement'] += 1
            if by_task[t.id]: viol['C04:milestone reserves'] += 1
            continue
        fixed_start = o.start is not None
        if fixed_start and t.start != o.start: viol['C04:fixed start changed'] += 1
        est = o.estimate if o.estimate is not None else default_estimate
        sp = o.spent if o.spent is not None else 0
        work = max(est - sp, 0)
        myrows = by_task[t.id]
        tot = sum(r.units for r in myrows)
        if abs(tot - work) > EPS * max(1, work): viol['C04:conservation'] += 1
        days = [r.date for r in myrows]
        if len(set(days)) != len(days): viol['C04:twice a day'] += 1
        for r in myrows:
            if r.units <= 0: viol['C03:nonpositive row'] += 1
            if r.resource is not resmap.get(t.resource): viol['C03:wrong resource'] += 1
            if r.date < day(now): viol['C04:before today'] += 1
            if not (day(t.start) <= r.date): viol['C04:row before start' + (':fixed' if fixed_start else '')] += 1
            if not (r.date < t.end): viol['C04:row not before end'] += 1
            if r.resource.get_available_units(r.date) <= 0: viol['C03:no capacity day'] += 1
        if not fixed_start:
            lb = max([lb0] + [day(e) for e in pred_ends] + ([day(o.min_start)] if o.min_start else []))
            if day(t.start) < lb: viol['C02:start before bound'] += 1
            for r in myrows:
                if r.date < lb: viol['C02:row before bound'] += 1
            if myrows:
                if day(t.start) != min(days): viol['C04:start not on first reserved day'] += 1
        if myrows:
            last = max(days)
            if not (last < t.end <= last + td(days=1) + td(microseconds=1)): viol['C04:end not within last day'] += 1
    # C03 over-allocation
    per = collections.defaultdict(float)
    for r in rows:
        per[(r.resource.name, r.date) if balance else (r.resource.name, r.date, r.task.id)] += r.units
    for k, v in per.items():
        cap = resmap[k[0]].get_available_units(k[1])
        if v > cap + EPS: viol['C03:overallocated'] += 1
    for t in s.tasks:
        if t.resource not in resmap: viol['C03:resource missing'] += 1
    return sch

if __name__ == '__main__':
    seed = int(sys.argv[1]) if len(sys.argv) > 1 else 0
    N = int(sys.argv[2]) if len(sys.argv) > 2 else 2000
    viol = collections.Counter(); ex = {}
    for i in range(N):
        rnd = random.Random(seed * 1000003 + i)
        base = REAL(2026,1,1) + td(days=rnd.randint(0, 6), hours=rnd.choice([0,0,0,10,23]))
        w, res = gen_wbs(rnd, base, fixed=rnd.random()<0.5)
        now = rnd.choice([REAL(2020,1,1), base - td(days=1), base, base + td(days=rnd.randint(0,5), hours=rnd.choice([0, 11]))])
        bal = rnd.random() < 0.7
        de = rnd.choice([0, 0, 4, 1.5])
        before = collections.Counter(viol)
        try:
            check_forward(w, res, base, now, bal, de, viol)
        except Exception as e:
            viol['HARNESS:' + type(e).__name__ + str(e)[:40]] += 1
            if 'H' not in ex: ex['H'] = traceback.format_exc()
        for k in viol:
            if viol[k] != before.get(k, 0) and k not in ex: ex[k] = (seed, i)
    for k, v in sorted(viol.items()): print(f'{v:6d} {k}   first={ex.get(k)}')
    if 'H' in ex: print(ex['H'])
