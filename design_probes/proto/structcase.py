import sys, random
from gstruct import *
seed, i, upto = int(sys.argv[1]), int(sys.argv[2]), int(sys.argv[3])
rnd = random.Random(seed*1000003+i)
n = rnd.randint(2, 7)
idpool = list(range(1, n+1)) + [1, 2]
tasks = [Task(rnd.choice(idpool) if rnd.random()<0.25 else k+1, f't{k}') for k in range(n)]
wbss = [WBS() for _ in range(rnd.randint(1,2))]
nm = {id(t): f't{k}#{t.id}' for k, t in enumerate(tasks)}
for k, w in enumerate(wbss): nm[id(w._root())] = f'ROOT{k}'
def show():
    for t in tasks:
        par = P(t,'parent'); w = P(t,'wbs')
        print('   ', nm[id(t)], 'par', nm.get(id(par)) if par is not None else None, 'ch', [nm[id(c)] for c in P(t,'children')], 'pred', [nm[id(c)] for c in P(t,'predecessors')], 'succ', [nm[id(c)] for c in P(t,'successors')], 'wbs', wbss.index(w) if w is not None else None)
import inspect
for step in range(upto+1):
    # re-implement rand_op with printing of args
    st = rnd.getstate()
    name, op = rand_op(rnd, tasks, wbss)
    cl = inspect.getclosurevars(op).nonlocals
    args = {k: (nm.get(id(v), v) if not isinstance(v, list) else [nm.get(id(x), x) for x in v]) for k, v in cl.items() if k in ('t','u','v','s','i','w')}
    try: op(); res='ok'
    except Exception as e: res = type(e).__name__ + ':' + str(e)[:60].replace('\n',' ')
    print(step, name, {k: (v if not isinstance(v, WBS) else wbss.index(v)) for k, v in args.items()}, '->', res)
show()
print(invariants(tasks, wbss, None))
