import sys, random, collections, copy, traceback
from gmodel import *
import gmodel
from gstruct import invariants
def member(s, w, x):
    stack = list(s['R'][w])
    while stack:
        y = stack.pop()
        if y == x: return True
        stack += s['T'][y]['children']
    return False
# patch model's wbs.remove membership to reachability
_old_expected = gmodel.expected
gmodel_cur = [None]
def expected2(s0, op):
    if op[0] == 'wbs.remove':
        s = copy.deepcopy(s0); _, w, x = op
        if member(s, w, x):
            m_detach(s, x); s['T'][x]['parent'] = None; m_set_owner(s, x, None)
        return [s]
    if op[0] == 'reorder_ids':
        s = copy.deepcopy(s0); cur = holder_list(s, op[1]); rest = list(cur); first = []
        for i_ in op[2]:
            m = [c for c in rest if gmodel_cur[0].obj[c].id == i_]
            if not m: return None
            first.append(m[0]); rest.remove(m[0])
        cur[:] = first + rest; return [s]
    return _old_expected(s0, op)

def gen_op(rnd, u):
    T = u.tasks; L = u.L
    t = rnd.choice(T); x = rnd.choice(T); y = rnd.choice(T); w = rnd.choice(u.wbss); wi = u.wlab[id(w)]
    some = lambda: rnd.sample(T, rnd.randint(0, min(3, len(T))))
    hold = rnd.random() < 0.7
    holder = ('t', L(t)) if hold else ('w', wi)
    lst = (lambda: t.children) if hold else (lambda: w.roots)
    c = rnd.randrange(20)
    if c == 0: return ('parent=', L(t), L(x)), lambda: setattr(t, 'parent', x)
    if c == 1: return ('parent=', L(t), None), lambda: setattr(t, 'parent', None)
    if c == 2:
        s = some()
        if hold: return ('children=', holder, [L(a) for a in s]), lambda: setattr(t, 'children', s)
        return ('children=', holder, [L(a) for a in s]), lambda: setattr(w, 'roots', s)
    if c == 3: return ('append', holder, L(x)), lambda: lst().append(x)
    if c == 4: return ('list.remove', holder, L(x)), lambda: lst().remove(x)
    if c == 5:
        i = rnd.randint(-1, 4); return ('insert', holder, i, L(x)), lambda: lst().insert(i, x)
    if c == 6:
        xs = some() or [x]
        mode = rnd.randrange(4)
        b = y if mode in (0, 2) else None; a = y if mode in (1, 2) else None
        return ('move', holder, [L(q) for q in xs], L(b) if b else None, L(a) if a else None), lambda: lst().move(xs, before=b, after=a)
    if c == 7:
        rev = rnd.random() < 0.5
        return ('sort', holder, (lambda lab: u.obj[lab].name), rev), lambda: lst().sort('name', reverse=rev)
    if c == 8:
        s = some(); return ('reorder_ids', holder, [a.id for a in s]), lambda: lst().reorder([a.id for a in s])
    if c == 9: s = some(); return ('preds=', L(t), [L(a) for a in s]), lambda: setattr(t, 'predecessors', s)
    if c == 10: s = some(); return ('succs=', L(t), [L(a) for a in s]), lambda: setattr(t, 'successors', s)
    if c == 11: return ('preds+', L(t), [L(x)]), lambda: t.predecessors.append(x)
    if c == 12: return ('succs+', L(t), [L(x)]), lambda: t.successors.append(x)
    if c == 13: return ('preds-', L(t), L(x)), lambda: t.predecessors.remove(x)
    if c == 14: return ('succs-', L(t), L(x)), lambda: t.successors.remove(x)
    if c == 15:
        s = some() or [x]
        arg = s if len(s) != 1 or rnd.random() < 0.5 else s[0]
        if hold: return ('floordiv', holder, [L(a) for a in s]), lambda: t // arg
        return ('floordiv', holder, [L(a) for a in s]), lambda: w // arg
    if c == 16: s = some() or [x]; return ('preds+', L(t), [L(a) for a in s]), lambda: t << s
    if c == 17: s = some() or [x]; return ('succs+', L(t), [L(a) for a in s]), lambda: t >> s
    if c == 18: return ('wbs.remove', wi, L(x)), lambda: w.remove(x)
    return ('append', ('w', wi), L(t)), lambda: w.roots.append(t)

if __name__ == '__main__':
    seed = int(sys.argv[1]); N = int(sys.argv[2]); LEN = int(sys.argv[3]) if len(sys.argv) > 3 else 14
    verbose = len(sys.argv) > 4
    viol = collections.Counter(); ex = {}; okc = collections.Counter()
    for i in (range(N) if not verbose else [int(sys.argv[4])]):
        rnd = random.Random(seed*1000003+i)
        n = rnd.randint(2, 7)
        tasks = [Task((rnd.randint(1, n) if rnd.random() < 0.2 else k+1), f'n{rnd.randint(0,3)}') for k in range(n)]
        u = U(tasks, [WBS() for _ in range(rnd.randint(1, 2))]); gmodel_cur[0] = u
        for step in range(LEN):
            desc, thunk = gen_op(rnd, u)
            s0 = snap(u)
            try: thunk(); res = 'ok'
            except RuntimeError: res = 'RuntimeError'
            except Exception as e: res = type(e).__name__
            s1 = snap(u)
            if verbose: print(step, desc[:1] + tuple(d for d in desc[1:] if not callable(d)), '->', res)
            new = []
            inv = invariants(u.tasks, u.wbss, None)
            for k in inv: new.append(k + ' after ' + desc[0] + '/' + res)
            if inv: pass
            elif res != 'ok':
                if s1 != s0: new.append(f'C15:{desc[0]}:{res}')
            else:
                exp = expected2(s0, desc)
                if exp is None: okc['unspecified:' + desc[0]] += 1
                elif strip_owner(s1) not in [strip_owner(e) for e in exp]:
                    new.append(f'C16:{desc[0]}')
                    if verbose: print('  got ', strip_owner(s1)); print('  want', [strip_owner(e) for e in exp])
                else: okc['C16ok:' + desc[0]] += 1
            for k in new:
                viol[k] += 1; ex.setdefault(k, (seed, i, step))
            if new: break
    for k, v in sorted(viol.items()): print(f'{v:6d} {k}   first={ex.get(k)}')
    print({k: v for k, v in sorted(okc.items())})
