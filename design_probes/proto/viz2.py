import collections
from viz import *
base = REAL(2026,1,5)
toks = HOSTILE + list("'\"{}<>$:") + ['a<b', 'a>b', '<', '< x', '<x', '{x}', 'a}b', '$', '&amp;', '&lt;', 'x & y']
for tok in toks:
    w = WBS(); a = w // Task(1, 'first', estimate=4); b = w // Task(2, 'pre' + tok + 'post', estimate=4, predecessors=[a]); c = w // Task(3, 'last', estimate=1, predecessors=[b])
    Clock._now = REAL(2020,1,1)
    s = ForwardScheduler(start=base).calc(w).schedule
    viol = collections.Counter(); ex = {}
    check(s, True, viol, ex, tok)
    print(repr(tok).ljust(16), sorted(k.replace(':hostile','').replace('C19:','') for k in viol))
