import sys, random, collections, traceback
from pjplan import Task, WBS
sys.setrecursionlimit(3000)
P=lambda t,n: getattr(t, '_Task__'+n)
def snap(tasks, wbss):
    st = {}
    for t in tasks:
        par = P(t,'parent')
        st[id(t)] = (id(par) if par is not None else None, tuple(id(c) for c in P(t,'children')), tuple(id(p) for p in P(t,'predecessors')), tuple(id(s) for s in P(t,'successors')), id(P(t,'wbs')) if P(t,'wbs') is not None else None)
    return st
def invariants(tasks, wbss, viol):
    roots = {id(w._root()): w for w in wbss}
    allt = list(tasks) + [w._root() for w in wbss]
    idx = {id(t): t for t in allt}
    out = set()
    for t in allt:
        par = P(t,'parent'); ch = P(t,'children')
        if len(set(map(id, ch))) != len(ch): out.add('C01:child listed twice')
        for c in ch:
            if P(c,'parent') is not t: out.add('C01:child does not report parent')
        if par is not None and sum(1 for c in P(par,'children') if c is t) != 1: out.add('C01:parent does not list child once')
        # ancestor cycle
        seen = set(); x = t
        while x is not None:
            if id(x) in seen: out.add('C01:ancestor cycle'); break
            seen.add(id(x)); x = P(x,'parent')
        for p in P(t,'predecessors'):
            if p is t: out.add('C01:self link')
            if not any(s is t for s in P(p,'successors')): out.add('C01:asymmetric pred')
        for s in P(t,'successors'):
            if not any(p is t for p in P(s,'predecessors')): out.add('C01:asymmetric succ')
    if not any(k.startswith('C01:ancestor cycle') for k in out):
        def anc(t):
            r = []; x = P(t,'parent')
            while x is not None: r.append(x); x = P(x,'parent')
            return r
        for t in allt:
            a = set(map(id, anc(t)))
            for p in list(P(t,'predecessors')) + list(P(t,'successors')):
                if id(p) in a: out.add('C01:link to ancestor')
        # dep cycle
        color = {}
        def dfs(t, depth=0):
            color[id(t)] = 1
            for p in P(t,'predecessors'):
                c = color.get(id(p), 0)
                if c == 1: return True
                if c == 0 and dfs(p): return True
            color[id(t)] = 2; return False
        for t in allt:
            if color.get(id(t),0) == 0 and dfs(t): out.add('C01:dependency cycle'); break
        # C11 wbs truth ; C05 unique ids
        for w in wbss:
            reach = []
            def walk(t):
                for c in P(t,'children'): reach.append(c); walk(c)
            walk(w._root())
            rid = set(map(id, reach))
            for t in tasks:
                if (P(t,'wbs') is w) != (id(t) in rid): out.add('C11:wbs pointer != reachability' + (':stale' if P(t,'wbs') is w else ':missing'))
            ids = [t.id for t in reach]
            if len(set(ids)) != len(ids): out.add('C05:dup ids in WBS')
        # detached trees unique ids
        for t in tasks:
            if P(t,'parent') is None and P(t,'wbs') is None:
                sub = []
                def walk(t):
                    sub.append(t)
                    for c in P(t,'children'): walk(c)
                walk(t)
                ids = [x.id for x in sub]
                if len(set(ids)) != len(ids): out.add('C05:dup ids in detached tree')
    return out

def rand_op(rnd, tasks, wbss):
    t = rnd.choice(tasks); u = rnd.choice(tasks); v = rnd.choice(tasks); w = rnd.choice(wbss)
    some = lambda: rnd.sample(tasks, rnd.randint(0, min(3, len(tasks))))
    ops = [
        ('parent=', lambda: setattr(t, 'parent', u)),
        ('parent=None', lambda: setattr(t, 'parent', None)),
        ('children=', lambda s=some(): setattr(t, 'children', s)),
        ('children.append', lambda: t.children.append(u)),
        ('children.remove', lambda: t.children.remove(u)),
        ('children.insert', lambda i=rnd.randint(0, 3): t.children.insert(i, u)),
        ('children.move before', lambda: t.children.move(u, before=v)),
        ('children.move after', lambda: t.children.move(u, after=v)),
        ('children.sort', lambda: t.children.sort('id', reverse=rnd.random()<0.5)),
        ('children.reorder', lambda s=[x.id for x in some()]: t.children.reorder(s)),
        ('predecessors=', lambda s=some(): setattr(t, 'predecessors', s)),
        ('successors=', lambda s=some(): setattr(t, 'successors', s)),
        ('predecessors.append', lambda: t.predecessors.append(u)),
        ('successors.append', lambda: t.successors.append(u)),
        ('predecessors.remove', lambda: t.predecessors.remove(u)),
        ('successors.remove', lambda: t.successors.remove(u)),
        ('t//u', lambda: t // u),
        ('t<<u', lambda: t << u),
        ('t>>u', lambda: t >> u),
        ('wbs//t', lambda: w // t),
        ('wbs.roots=', lambda s=some(): setattr(w, 'roots', s)),
        ('wbs.roots.append', lambda: w.roots.append(t)),
        ('wbs.roots.insert', lambda i=rnd.randint(0,3): w.roots.insert(i, t)),
        ('wbs.roots.move', lambda: w.roots.move(t, before=u)),
        ('wbs.remove', lambda: w.remove(t)),
        ('wbs.remove_all', lambda i=rnd.choice(tasks).id: w.remove_all(id=i)),
    ]
    return rnd.choice(ops)

if __name__ == '__main__':
    seed = int(sys.argv[1]); N = int(sys.argv[2]); L = int(sys.argv[3]) if len(sys.argv) > 3 else 12
    viol = collections.Counter(); ex = {}
    for i in range(N):
        rnd = random.Random(seed*1000003+i)
        n = rnd.randint(2, 7)
        idpool = list(range(1, n+1)) + [1, 2]
        tasks = [Task(rnd.choice(idpool) if rnd.random()<0.25 else k+1, f't{k}') for k in range(n)]
        wbss = [WBS() for _ in range(rnd.randint(1,2))]
        hist = []
        for step in range(L):
            name, op = rand_op(rnd, tasks, wbss)
            before = snap(tasks, wbss)
            try:
                op(); res = 'ok'
            except RuntimeError as e: res = 'RuntimeError'
            except RecursionError as e: res = 'RecursionError'
            except Exception as e: res = type(e).__name__
            hist.append((name, res))
            after = snap(tasks, wbss)
            new = set()
            if res != 'ok' and after != before: new.add(f'C15:state changed on {res} in {name}')
            if res not in ('ok', 'RuntimeError'): new.add(f'EXC:{res} in {name}')
            try:
                inv = invariants(tasks, wbss, viol)
            except RecursionError:
                inv = {'INV:recursion'}
            for k in inv: new.add(k + ' after ' + name + '/' + res)
            for k in new:
                viol[k] += 1
                ex.setdefault(k, (seed, i, step))
            if new: break   # first violation per history only
    for k, v in sorted(viol.items()): print(f'{v:6d} {k}   first={ex.get(k)}')
