"""Prototype generator + oracles for scheduler properties (exploration only)."""
import datetime as _dt, random, sys
REAL = _dt.datetime
class Clock(REAL):
    _now = REAL(2020,1,1); calls = 0
    @classmethod
    def now(cls, tz=None):
        cls.calls += 1
        n = cls._now
        return REAL(n.year,n.month,n.day,n.hour,n.minute,n.second,n.microsecond)
_dt.datetime = Clock
import pjplan
from pjplan import Task, WBS, ForwardScheduler, BackwardScheduler, Resource, WeeklyCalendar, DirectCalendar, FixedCalendar
td = _dt.timedelta
def day(d): return REAL(d.year, d.month, d.day)

def gen_calendar(rnd, base):
    k = rnd.random()
    if k < 0.3: return None  # default
    if k < 0.5: return WeeklyCalendar(days=sorted(rnd.sample(range(7), rnd.randint(1,6))), units_per_day=rnd.choice([1,2,4,8,0.5,2.5,7.3]))
    if k < 0.65: return WeeklyCalendar(units_per_day={d: rnd.choice([0,1,3,8,0.25,2.5]) for d in rnd.sample(range(7), rnd.randint(1,7))} | {rnd.randrange(7): rnd.choice([1,8,2.5])})
    if k < 0.8:
        # direct, sparse over ±60 days, with weekly fallback so that capacity never runs out
        dc = DirectCalendar({base + td(days=rnd.randint(-40,40)): rnd.choice([0,0,1,2.5,8,16]) for _ in range(rnd.randint(1,25))})
        return dc | WeeklyCalendar(days=[0,2,4], units_per_day=rnd.choice([4,8,1.5]))
    if k < 0.9:
        return WeeklyCalendar(days=[0,1,2,3,4], units_per_day=8) * rnd.choice([0.5, 1.5, 2]) 
    return WeeklyCalendar(days=[0,1,2,3,4,5], units_per_day=rnd.choice([6,8])) - FixedCalendar(rnd.choice([1,2,6]), start=day(base) - td(days=rnd.randint(0,10)), end=day(base) + td(days=rnd.randint(0,20)+1) - td(microseconds=1))

def gen_wbs(rnd, base, fixed=True, n_max=12):
    n = rnd.randint(1, n_max)
    w = WBS()
    tasks = []
    res_names = [None, 'A', 'B', 'C'][:rnd.randint(1,4)]
    for i in range(n):
        kw = {}
        r = rnd.random()
        kw['estimate'] = rnd.choice([None, 0, 1, 2, 3.5, 8, 12, 20, 0.1, 0.2, 0.7, 40])
        if rnd.random() < 0.3: kw['spent'] = rnd.choice([0, 1, 2.5, 8, 50, 0.1])
        if rnd.random() < 0.15: kw['min_start'] = base + td(days=rnd.randint(-5, 20), hours=rnd.choice([0,0,9,17]))
        kw['resource'] = rnd.choice(res_names)
        t = Task(i+1, f"t{i+1}", **kw)
        # parent
        if tasks and rnd.random() < 0.55:
            p = rnd.choice(tasks)
            try: p.children.append(t)
            except RuntimeError: w.roots.append(t)
        else:
            w.roots.append(t)
        tasks.append(t)
    # links
    for _ in range(rnd.randint(0, 2*n)):
        a, b = rnd.sample(tasks, 2) if n > 1 else (tasks[0], tasks[0])
        if a is b: continue
        if a in b.all_parents or b in a.all_parents: continue
        try: a.predecessors.append(b)
        except RuntimeError: pass
    for t in tasks:
        if len(t.children)==0 and rnd.random() < 0.15: t.milestone = True
    # fixed dates on leaves (forward only)
    if fixed:
        for t in tasks:
            if len(t.children) == 0 and not t.milestone and rnd.random() < 0.12:
                t.start = base + td(days=rnd.randint(-10, 15), hours=rnd.choice([0,0,6]))
    # summary junk
    for t in tasks:
        if len(t.children) and rnd.random() < 0.3:
            t.start = base - td(days=3); t.estimate = 99; t.spent = 1
    resources = []
    for nm in res_names:
        if rnd.random() < 0.7:
            c = gen_calendar(rnd, base)
            resources.append(Resource(nm, c) if c is not None else Resource(nm))
    return w, resources

def hier_deadlock(w):
    """True iff combined graph (preds, inherited preds, summary->children) has a cycle."""
    tasks = list(w.tasks)
    idx = {id(t): t for t in tasks}
    def deps(t):
        out = list(t.predecessors) + list(t.children)
        for p in t.all_parents: out += list(p.predecessors)
        return [x for x in out if id(x) in idx]
    color = {}
    def dfs(t):
        color[id(t)] = 1
        for d in deps(t):
            c = color.get(id(d), 0)
            if c == 1: return True
            if c == 0 and dfs(d): return True
        color[id(t)] = 2
        return False
    return any(color.get(id(t),0)==0 and dfs(t) for t in tasks)
