import sys, random, collections
from gen import *
from tight import check, run, sig
seed, i = int(sys.argv[1]), int(sys.argv[2])
rnd = random.Random(seed * 1000003 + i)
base = REAL(2026,1,1) + td(days=rnd.randint(0, 6), hours=rnd.choice([0,0,0,10,23]))
w, res = gen_wbs(rnd, base, fixed=rnd.random()<0.3)
now = rnd.choice([REAL(2020,1,1), base - td(days=1), base, base + td(days=rnd.randint(0,5), hours=rnd.choice([0, 11]))])
de = rnd.choice([0, 0, 4, 1.5])
print('start', base, 'now', now, 'de', de, 'res', [(r.name, repr(r.calendar)[:60].replace('\n',' ')) for r in res])
for t in w.tasks:
    print(' IN ', t.id, 'par', t.parent.id if t.parent else None, 'pred', [p.id for p in t.predecessors], 'res', t.resource, 'est', t.estimate, 'sp', t.spent, 'ms' if t.milestone else '', 'start', t.start, 'min', t.min_start)
viol = collections.Counter()
check(w, res, base, now, de, viol); print(dict(viol))
for nw in [now, REAL(2001,2,3,4,5)]:
    _, sch = run(w, res, base, nw, True, de)
    print('-- now', nw)
    for t in sch.schedule.tasks: print(' OUT', t.id, t.start, t.end, t.estimate, t.spent)
    for r in sch.resource_usage.rows(): print('   row', r.resource.name, r.date.date(), r.task.id, r.units, 'cap', r.resource.get_available_units(r.date))
