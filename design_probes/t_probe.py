from datetime import datetime
import clk
from pjplan import Task, WBS, ForwardScheduler, BackwardScheduler, IResource, WeeklyCalendar
clk.freeze(datetime(2020,1,1))
class Budget(BaseException): pass
class Probe(IResource):
    def __init__(self, name, cal, budget=10**6):
        super().__init__(name); self.cal = cal; self.log = []; self.q = 0; self.budget = budget
    def get_available_units(self, date, task=None):
        self.q += 1
        if self.q > self.budget: raise Budget()
        u = self.cal.get_available_units(date); u = 0 if u is None else u
        self.log.append(('q', date, task.id if task is not None else None, u)); return u
    def reserve(self, date, task, units):
        self.log.append(('r', date, task.id, units))
w = WBS(); w // Task(1, estimate=10, resource='A'); w // Task(2, estimate=16, resource='A')
for S, kw in ((ForwardScheduler, dict(start=datetime(2026,1,1))), (BackwardScheduler, dict(end=datetime(2026,1,30)))):
    p = Probe('A', WeeklyCalendar(days=[0,1,2,3,4], units_per_day=8))
    s = S(resources=[p], **kw).calc(w)
    ev = [(e[1].date(), e[2], e[3]) for e in p.log if e[0] == 'r']
    rows = [(r.date.date(), r.task.id, r.units) for r in s.resource_usage.rows()]
    print(S.__name__, 'queries', p.q, 'reserve events == rows:', ev == rows, 'resource identity', all(r.resource is p for r in s.resource_usage.rows()))
p = Probe('A', WeeklyCalendar(days=[], units_per_day=8), budget=5000)
try: ForwardScheduler(start=datetime(2026,1,1), resources=[p]).calc(w)
except Budget: print('budget exception propagates out of calc, queries', p.q)
