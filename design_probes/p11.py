from datetime import datetime
import os, tempfile
from pjplan import Task, WBS, read_csv, write_csv
d=tempfile.mkdtemp()
def rt(label, w, show=True):
    p=os.path.join(d,'a.csv'); p2=os.path.join(d,'b.csv'); p3=os.path.join(d,'c.csv')
    try:
        write_csv(w,p)
        raw=open(p,'rb').read()
        if show: print('==',label); print(raw.decode('utf-8'))
        r=read_csv(p)
        print('  read:', [(t.id, t.parent.id if t.parent else None, [x.id for x in t.predecessors], {k:v for k,v in t.to_dict().items() if k!='id' and v not in (None,False)}) for t in r.tasks])
        write_csv(r,p2); r2=read_csv(p2); write_csv(r2,p3)
        print('  fixpoint b==c', open(p2,'rb').read()==open(p3,'rb').read(), ' a==b', raw==open(p2,'rb').read())
        return r
    except BaseException as e:
        print('==',label,'RAISED', type(e).__name__, str(e)[:200])
w=WBS(); a=w//Task(0,'zero'); b=a//Task(1,'child of zero'); c=w//Task(-5,'neg'); c//Task(7,'child of neg', predecessors=[b])
rt('ids 0 and negative', w)
w=WBS(); w//Task(1,'semi;colon "quoted" \n newline, comma', resource='a;b', x='p;q"r\ns'); w//Task(2,'\r carriage', y='only2')
rt('adversarial strings', w)
w=WBS(); w//Task(1,'t', start=datetime(2026,1,1), end=datetime(2026,1,5), estimate=2.5, spent=0.1, milestone=True, min_start=datetime(2026,1,1)); w//Task(2, estimate=0, spent=0)
rt('fields', w)
w=WBS(); w//Task(1,'t', start=datetime(1969,1,1), end=datetime(2068,12,31)); w//Task(2,'u', start=datetime(1968,12,31), end=datetime(2069,1,1))
rt('date range', w)
w=WBS(); w//Task(1,'', resource=''); w//Task(2,None)
rt('empty strings', w)
# custom attr None / sparse / non-string
w=WBS(); w//Task(1,'a', k=None, n=5, f=1.5, b=True); w//Task(2,'b', z='')
rt('custom types', w)
# custom attr named like default field / with leading underscore / 'parent_id'
w=WBS(); w//Task(1,'a', parent_id='zz')
rt('custom named parent_id', w)
# name with only whitespace, leading/trailing spaces, unicode, BOM char inside
w=WBS(); w//Task(1,'  spaced  ', resource=' '); w//Task(2,'юникод ﻿ bom inside ✓')
rt('whitespace+unicode', w)
# BOM file
p=os.path.join(d,'bom.csv')
open(p,'wb').write('﻿id;name;resource;start;end;estimate;spent;milestone;parent_id;predecessor_ids\n1;a;;;;;;;;\n2;b;;01.02.26;;3;;True;;1\n'.encode('utf-8'))
r=read_csv(p); print('BOM read', [(t.id,t.name,t.parent.id if t.parent else None,t.start,t.estimate,t.milestone,[x.id for x in t.predecessors]) for t in r.tasks])
# hand-written with \r\n line endings
open(p,'wb').write('id;name;resource;start;end;estimate;spent;milestone;parent_id;predecessor_ids\r\n1;a;;;;;;;;\r\n2;b;;01.02.26;;3;;True;;1\r\n'.encode('utf-8'))
try:
    r=read_csv(p); print('CRLF read', [(t.id,t.name,t.parent.id if t.parent else None,t.start,t.estimate,t.milestone,[x.id for x in t.predecessors]) for t in r.tasks])
except BaseException as e: print('CRLF RAISED', type(e).__name__, e)
# forward reference: child row before parent row; predecessor later in file
open(p,'wb').write('id;name;resource;start;end;estimate;spent;milestone;parent_id;predecessor_ids\n2;b;;;;;;;1;3\n1;a;;;;;;;;\n3;c;;;;;;;;\n'.encode())
try:
    r=read_csv(p); print('fwd ref read', [(t.id,t.parent.id if t.parent else None,[x.id for x in t.predecessors]) for t in r.tasks])
except BaseException as e: print('fwdref RAISED', type(e).__name__, e)
# column order permuted, missing optional? extra columns
open(p,'wb').write('name;id;predecessor_ids;resource;start;end;estimate;spent;milestone;parent_id;extra\nA;1;;;;;;;;;x\nB;2;1;;;;;;;1;\n'.encode())
try:
    r=read_csv(p); print('permuted read', [(t.id,t.name,t.parent.id if t.parent else None,[x.id for x in t.predecessors], t.__dict__.get('extra')) for t in r.tasks])
except BaseException as e: print('permuted RAISED', type(e).__name__, e)
# sibling order with hierarchy (children after parent but interleaved)
w=WBS(); a=w//Task(1); b=w//Task(2); a//Task(3); b//Task(4); a//Task(5)
r=rt('order', w, show=False); print([t.id for t in w.tasks],[t.id for t in r.tasks])
# multiple predecessors
w=WBS(); a=w//Task(1); b=w//Task(2); c=w//Task(3, predecessors=[b,a])
r=rt('multi preds', w, show=True)
# deep hierarchy
w=WBS(); cur=w//Task(0)
for i in range(1,6): cur=cur//Task(i)
r=rt('deep with id 0 root', w, show=False)
