from pjplan import Task, WBS
def tryit(label, f):
    try:
        r = f()
        print(label, '-> OK', r if r is not None else '')
    except BaseException as e:
        print(label, '-> RAISED', type(e).__name__, str(e)[:100])
ids=lambda l:[t.id for t in l]
def mk(n=5):
    w=WBS()
    for i in range(1,n+1): w//Task(i, str(10-i))
    return w
# insert
w=mk(); tryit('insert0 new', lambda: w.roots.insert(0, Task(9))); print(ids(w.roots), ids(w.tasks))
w=mk(); tryit('insert2 new', lambda: w.roots.insert(2, Task(9))); print(ids(w.roots), ids(w.tasks))
w=mk(); tryit('insert5(len) new', lambda: w.roots.insert(5, Task(9))); print(ids(w.roots), ids(w.tasks))
w=mk(); tryit('insert 7 new', lambda: w.roots.insert(7, Task(9))); print(ids(w.roots), [t.id for t in w.tasks])
w=mk(); tryit('insert -1 new', lambda: w.roots.insert(-1, Task(9))); print(ids(w.roots), ids(w.tasks))
w=mk(); tryit('insert3 existing member 1', lambda: w.roots.insert(3, w[1])); print(ids(w.roots), ids(w.tasks))
w=mk(); tryit('insert0 existing member 3', lambda: w.roots.insert(0, w[3])); print(ids(w.roots), ids(w.tasks))
w=WBS(); tryit('insert into empty', lambda: w.roots.insert(0, Task(1))); print(ids(w.roots))
# compare list semantic
l=[1,2,3,4,5]; l.insert(-1,9); print('py list insert -1', l)

# move
w=mk(); tryit('move 1 after 3', lambda: w.roots.move(w[1], after=w[3])); print(ids(w.roots), ids(w.tasks))
w=mk(); tryit('move [1,2] after 4', lambda: w.roots.move([w[1],w[2]], after=w[4])); print(ids(w.roots), ids(w.tasks))
w=mk(); tryit('move [1,2] before 4', lambda: w.roots.move([w[1],w[2]], before=w[4])); print(ids(w.roots), ids(w.tasks))
w=mk(); tryit('move 1 before 1', lambda: w.roots.move(w[1], before=w[1])); print(ids(w.roots))
w=mk(); tryit('move [1,2] before 2', lambda: w.roots.move([w[1],w[2]], before=w[2])); print(ids(w.roots))
w=mk(); tryit('move no anchor', lambda: w.roots.move(w[1])); print(ids(w.roots), ids(w.tasks))
w=mk(); tryit('move both anchor', lambda: w.roots.move(w[1], before=w[2], after=w[3])); print(ids(w.roots))
# facade staleness: hold the list, then move
w=mk(); r=w.roots; r.move(w[1], after=w[5]); print('after move, roots', ids(w.roots), 'held', ids(r))
# sort
w=mk(); r=w.roots; r.sort('name'); print('sort name', ids(w.roots), 'held', ids(r))
w=mk(); tryit('sort name rev', lambda: w.roots.sort('name', reverse=True)); print(ids(w.roots), ids(w.tasks))
w=mk(); tryit('sort multi', lambda: w.roots.sort(['name','id'])); print(ids(w.roots), ids(w.tasks))
w=mk(); 
for t in w.roots: t.name='x'
w.roots.sort('name', reverse=True); print('stable reversed (equal keys)', ids(w.roots))
w=mk(); w[2].name=None
tryit('sort with None name', lambda: w.roots.sort('name')); print(ids(w.roots))
w=mk(); tryit('sort unknown attr', lambda: w.roots.sort('zzz')); print(ids(w.roots))
# reorder
w=mk(); tryit('reorder [3,1]', lambda: w.roots.reorder([3,1])); print(ids(w.roots), ids(w.tasks))
w=mk(); tryit('reorder missing', lambda: w.roots.reorder([3,99])); print(ids(w.roots))
w=mk(); tryit('reorder dup', lambda: w.roots.reorder([3,3])); print(ids(w.roots))
# after sort, check parent pointers & wbs tasks
w=mk(); c=w[1]//Task(11); w.roots.sort('id', reverse=True); print(ids(w.tasks), [t.parent for t in w.roots])
