import sys, time, datetime as _dt, collections
REAL = _dt.datetime
class _Meta(type(REAL)):
    def __instancecheck__(cls, obj): return type.__instancecheck__(REAL, obj) if cls is Clock else type.__instancecheck__(cls, obj)
class Clock(REAL, metaclass=_Meta):
    _now = REAL(2020,1,1); calls = 0
    @classmethod
    def now(cls, tz=None):
        cls.calls += 1
        n = cls._now
        return REAL.__new__(cls, n.year,n.month,n.day,n.hour,n.minute,n.second,n.microsecond)
_dt.datetime = Clock
print(isinstance(REAL(2020,1,1), Clock), isinstance(Clock(2020,1,1), REAL), type(Clock.now()), isinstance(5, Clock))
import pjplan
from pjplan import Task, WBS, ForwardScheduler
mon = sys.monitoring
TOOL = mon.PROFILER_ID
mon.use_tool_id(TOOL, 'verif')
hits = collections.Counter(); lines = set()
def on_start(code, off):
    if 'pjplan' not in code.co_filename: return mon.DISABLE
    hits[(code.co_filename.split('pjplan/')[-1], code.co_qualname)] += 1
def on_line(code, line):
    if 'pjplan' in code.co_filename: lines.add((code.co_filename.split('pjplan/')[-1], line))
    return mon.DISABLE
mon.register_callback(TOOL, mon.events.PY_START, on_start)
mon.register_callback(TOOL, mon.events.LINE, on_line)
mon.set_events(TOOL, mon.events.PY_START | mon.events.LINE)
t0=time.time()
for k in range(200):
    w = WBS(); a = w // Task(1, 'a', estimate=8); b = w // Task(2, 'b', estimate=4, predecessors=[a])
    s = ForwardScheduler(start=REAL(2026,1,1)).calc(w)
print('time', time.time()-t0, 'clock calls', Clock.calls)
mon.set_events(TOOL, 0)
print(len(hits), 'functions;', len(lines), 'lines; sample', hits.most_common(5))
print(sorted(l for f,l in lines if f=='schedule.py')[:40])
print(repr(s.schedule)[:50].encode())
