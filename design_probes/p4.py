from pjplan import Task, WBS
def tryit(label, f):
    try:
        r = f()
        print(label, '-> OK', r if r is not None else '')
    except BaseException as e:
        print(label, '-> RAISED', type(e).__name__, str(e)[:150])
ids=lambda l:[t.id for t in l]
def dump(w):
    return [(t.id, t.parent.id if t.parent else None, ids(t.predecessors), ids(t.successors), t.wbs is w) for t in w.tasks]
# basic clone with links and hierarchy
w=WBS(color='red'); w.custom=5
a=w//Task(1,'a',x=1); b=a//Task(2,'b'); c=w//Task(3,'c'); d=c//Task(4,'d')
d.predecessors=[b]; c.predecessors=[a]
k=w.clone()
print(dump(w)); print(dump(k)); print('wbs attrs', k.__dict__.keys(), getattr(k,'custom',None), getattr(k,'color',None))
print('root attrs', w._root().__dict__.get('color'), k._root().__dict__.get('color'))
# external links
ext=WBS(); e=ext//Task(100,'ext')
det=Task(200,'detached')
b.predecessors=[e]; d.successors=[det]
k=w.clone()
print('clone w/ external', dump(k)); print('e.succ', [(t.id, t.wbs is w, t.wbs is k) for t in e.successors], 'det.pred', [(t.id, t.wbs is w, t.wbs is k) for t in det.predecessors])
print('source after', dump(w))
# external with same id as member
ext2=WBS(); e2=ext2//Task(3,'ext-same-id-as-c')
b.predecessors=[e2]
tryit('clone ext same id', lambda: dump(w.clone()))
print('source after', dump(w))
# subtree
w=WBS(); a=w//Task(1); b=a//Task(2); c=w//Task(3); d=c//Task(4); e=w//Task(5)
d.predecessors=[b]; e.predecessors=[d]; 
s=w.subtree([c]); print('subtree[c]', dump(s)); print('source after', dump(w))
s=w.subtree([b,c]); print('subtree[b,c]', dump(s)); print('source after', dump(w))
tryit('subtree nested [a,b]', lambda: dump(w.subtree([a,b])))
print('source after', dump(w))
tryit('subtree [d] (non-root)', lambda: dump(w.subtree(d)))
# ordering of roots
s=w.subtree([e,a]); print('subtree[e,a] roots', ids(s.roots))
# independence
k=w.clone(); k[1].name='z'; k[2].parent=None; print(dump(w))
# mutable custom attribute shared?
w=WBS(); a=w//Task(1, tags=['x']); k=w.clone(); k[1].tags.append('y'); print('tags shared?', a.tags)
# empty WBS
tryit('clone empty', lambda: dump(WBS().clone()))
# links on summary
w=WBS(); a=w//Task(1); b=a//Task(2); c=w//Task(3); c.predecessors=[a]
print(dump(w.clone()))
