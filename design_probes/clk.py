import datetime as _dt
import pjplan.schedule as S
import pjplan.viz.mermaid.gantt as MG
import pjplan.viz.dhtmlx.gantt as DG
class FrozenDT(_dt.datetime):
    _now = _dt.datetime(2020,1,1)
    @classmethod
    def now(cls, tz=None):
        n = cls._now
        return _dt.datetime(n.year,n.month,n.day,n.hour,n.minute,n.second,n.microsecond)
def freeze(now):
    FrozenDT._now = now
    S.datetime = FrozenDT
    MG.datetime = FrozenDT
    DG.datetime = FrozenDT
