from datetime import datetime, timedelta
import clk, re
from pjplan import Task, WBS, ForwardScheduler, Resource
clk.freeze(datetime(2020,1,1))
ANSI=re.compile(r'\x1b\[[0-9;:]*m')
def tryit(label, f):
    try:
        r = f()
        print(label, '-> OK', r if r is not None else 'None')
    except BaseException as e:
        print(label, '-> RAISED', type(e).__name__, str(e)[:150])
def lines(s): return [ANSI.sub('', l) for l in s.split('\n')]
ext=WBS(); e=ext//Task(100,'ext')
w=WBS(); a=w//Task(1,'Alpha', estimate=8, long='x'*30); S=w//Task(2,None); b=S//Task(3,'B', estimate=4, predecessors=[a,e]); c=b//Task(33,'deep')
for l in lines(repr(w)): print(repr(l))
print([len(l) for l in lines(repr(w))])
from pjplan.task import _Repr
for l in lines(_Repr.repr(w.roots, ['id','name','parent','successors','predecessors','long','nope','START','Name'], True)): print(repr(l))
for l in lines(_Repr.repr(w.roots, ['id','name'], False)): print(repr(l))
for l in lines(repr(b)): print(repr(l))
for l in lines(repr(w.tasks(id_in_=[1,33]))): print(repr(l))
# a list which contains a task and its descendant with children=True → descendant printed twice?
for l in lines(repr(w.tasks)): print(repr(l))
tryit('empty wbs repr', lambda: repr(repr(WBS())))
tryit('fields empty', lambda: repr(_Repr.repr(w.roots, [])))
tryit('theme w/o level colors', lambda: repr(_Repr.repr(w.roots, None, True, {'header_color':'91m'}))[:40])
tryit('theme short level colors', lambda: len(_Repr.repr(w.roots, None, True, {'level_colors':['91m']})))
w.roots[0].print_color='92m'
tryit('print_color', lambda: len(repr(w)))
# non-str name
w5=WBS(); w5//Task(1, 5)
tryit('int name', lambda: len(repr(w5)))
# usage table
w2=WBS(); w2//Task(1,'a',estimate=20, resource='X'); w2//Task(2,'b',estimate=4, resource=None)
s=ForwardScheduler(start=datetime(2026,1,1)).calc(w2)
for l in lines(repr(s.resource_usage)): print(repr(l))
tryit('empty usage', lambda: repr(ForwardScheduler(start=datetime(2026,1,1)).calc(WBS()).resource_usage))
# wide chars / multi-line names
w3=WBS(); w3//Task(1,'two\nlines')
for l in lines(repr(w3)): print(repr(l))
