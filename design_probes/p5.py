from pjplan import Task, WBS
from pjplan.task import _ImmutableTaskList
def tryit(label, f):
    try:
        r = f()
        print(label, '-> OK', r if r is not None else '')
    except BaseException as e:
        print(label, '-> RAISED', type(e).__name__, str(e)[:150])
ids=lambda l:[t.id for t in l]
w=WBS()
a=w//Task(1,'alpha',resource='R1',estimate=5, tag='x')
b=w//Task(2,'beta',resource=None,estimate=None)
c=a//Task(3,None,resource='R2',estimate=0, tag=None)
L=w.tasks
tryit('name=None', lambda: ids(L(name=None)))
tryit('tag=None (absent or None)', lambda: ids(L(tag=None)))
tryit('tag_is_none_', lambda: ids(L(tag_is_none_=True)))
tryit('tag_is_none_=False', lambda: ids(L(tag_is_none_=False)))
tryit('tag_is_not_none_', lambda: ids(L(tag_is_not_none_=True)))
tryit('tag_ne_ x', lambda: ids(L(tag_ne_='x')))
tryit('tag_ne_ y', lambda: ids(L(tag_ne_='y')))
tryit('tag_in_ [None]', lambda: ids(L(tag_in_=[None])))
tryit('tag_not_in_ [x]', lambda: ids(L(tag_not_in_=['x'])))
tryit('estimate_lt_ 3', lambda: ids(L(estimate_lt_=3)))
tryit('estimate_ge_ 0', lambda: ids(L(estimate_ge_=0)))
tryit('estimate (property) = 5', lambda: ids(L(estimate=5)))
tryit('spent_is_none_', lambda: ids(L(spent_is_none_=True)))
tryit('parent_id=1', lambda: ids(L(parent_id=1)))
tryit('parent_id_is_none_', lambda: ids(L(parent_id_is_none_=True)))
tryit('name_like_ a', lambda: ids(L(name_like_='a$')))
tryit('name_not_like_ a', lambda: ids(L(name_not_like_='^a')))
tryit('resource_like_', lambda: ids(L(resource_like_='R')))
tryit('combo', lambda: ids(L(resource_like_='R', estimate_gt_=1)))
tryit('callable', lambda: ids(L(lambda t: t.id>1)))
tryit('callable+kw', lambda: ids(L(lambda t: t.id>1, id=3)))
tryit('key int', lambda: ids(L(2)))
tryit('no args', lambda: ids(L()))
tryit('milestone=False', lambda: ids(L(milestone=False)))
# attribute whose name ends with a suffix-like e.g. 'plugin_' 
tryit('wbs attr', lambda: ids(L(wbs=w)))
tryit('children attr', lambda: ids(L(children_is_none_=True)))
# bulk assignment
L(resource_like_='R').owner='me'
print([(t.id, t.__dict__.get('owner')) for t in w.tasks])
# bulk assign parent
# remove_all
w2=w.clone()
r=w2.remove_all(id_in_=[1,3]); print('remove_all [1,3] returned', ids(r), 'left', ids(w2.tasks))
w2=w.clone()
r=w2.remove_all(id_in_=[3,1]); print('remove_all [3,1] returned', ids(r), 'left', ids(w2.tasks))
w2=w.clone()
r=w2.roots.remove_all(id=2); print('roots.remove_all id=2', ids(r), ids(w2.tasks))
w2=w.clone()
tryit('remove_all()', lambda: ids(w2.remove_all())); print(ids(w2.tasks))
w2=w.clone()
tryit('remove_all(no match)', lambda: ids(w2.remove_all(id=99))); print(ids(w2.tasks))
w2=w.clone()
tryit('remove_all lambda', lambda: ids(w2.remove_all(lambda t: t.id==3))); print(ids(w2.tasks))
# predecessors.remove_all
w2=w.clone(); w2[2].predecessors=[w2[1], w2[3]]
tryit('pred remove_all', lambda: ids(w2[2].predecessors.remove_all(id=1))); print(ids(w2[2].predecessors), ids(w2[1].successors))
# wbs.remove of nested; return values
w2=w.clone(); print('remove nested', w2.remove(w2[3]), ids(w2.tasks)); print('remove nonmember', w2.remove(Task(77)))
tryit('remove non-task', lambda: w2.remove(3))
# task equality? 'task not in list' uses == -> identity
