from pjplan import Task, WBS
def tryit(label, f):
    try:
        r = f()
        print(label, '-> OK', r if r is not None else '')
    except BaseException as e:
        print(label, '-> RAISED', type(e).__name__, str(e)[:150])
ids=lambda l:[t.id for t in l]
# fractional
w=WBS(); a=w//Task(1,estimate=0.1); b=w//Task(2,estimate=0.2, predecessors=[a]); c=w//Task(3,estimate=0.3)
tryit('0.1+0.2 vs 0.3', lambda: ids(w.critical_path()))
w=WBS(); a=w//Task(1,estimate=0.1); b=w//Task(2,estimate=0.2, predecessors=[a]); c=w//Task(3,estimate=0.7,predecessors=[b]); d=w//Task(4,estimate=1.0)
tryit('frac chain', lambda: ids(w.critical_path()))
import random
random.seed(1)
bad=0
for i in range(2000):
    w=WBS(); ts=[]
    n=random.randint(1,6)
    for j in range(n):
        t=w//Task(j, estimate=random.choice([0.1,0.2,0.3,0.7,1.1,2.3,0.05]))
        for p in ts:
            if random.random()<0.4: t.predecessors.append(p)
        ts.append(t)
    cp=w.critical_path()
    if len(cp)==0:
        bad+=1
        if bad<3: print('EMPTY CP', [(t.id,t.estimate,ids(t.predecessors)) for t in ts])
print('empty cps', bad)
# summary link
w=WBS(); s=w//Task(1); x=s//Task(2,estimate=5); y=s//Task(3,estimate=1); z=w//Task(4,estimate=3, predecessors=[s]); q=w//Task(5, estimate=7)
tryit('summary pred', lambda: ids(w.critical_path()))
# expected: z must wait for x (5) → 5+3=8 > 7 → critical {2,4}
w=WBS(); s=w//Task(1); x=s//Task(2,estimate=5); z=w//Task(4,estimate=3); s.predecessors=[z]; q=w//Task(5, estimate=7)
tryit('summary succ', lambda: ids(w.critical_path()))
# external predecessor
e=Task(100, estimate=50)
w=WBS(); a=w//Task(1,estimate=1, predecessors=[e]); b=w//Task(2,estimate=10)
tryit('external pred', lambda: ids(w.critical_path()))
# leaf pred is summary whose... KeyError?
w=WBS(); s=w//Task(1); x=s//Task(2,estimate=5); z=w//Task(4,estimate=3, predecessors=[s])
tryit('pred is summary only', lambda: ids(w.critical_path()))
# zero-length
w=WBS(); a=w//Task(1,estimate=0); b=w//Task(2,estimate=0)
tryit('all zero', lambda: ids(w.critical_path()))
w=WBS(); a=w//Task(1,estimate=3); b=w//Task(2,estimate=0, predecessors=[a]); c=w//Task(3, estimate=0)
tryit('zero tail', lambda: ids(w.critical_path()))
# spent>estimate
w=WBS(); a=w//Task(1,estimate=3,spent=5); b=w//Task(2,estimate=1)
tryit('spent>est', lambda: ids(w.critical_path()))
tryit('empty', lambda: ids(WBS().critical_path()))
# deep chain recursion
w=WBS(); prev=None
for i in range(1500):
    t=w//Task(i, estimate=1)
    if prev: t.predecessors=[prev]
    prev=t
tryit('deep chain', lambda: len(w.critical_path()))
