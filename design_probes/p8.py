from datetime import datetime, timedelta
import clk
from pjplan import Task, WBS, ForwardScheduler, BackwardScheduler, Resource, WeeklyCalendar, DirectCalendar, FixedCalendar
def tryit(label, f):
    try:
        r = f()
        print(label, '-> OK', r if r is not None else '')
    except BaseException as e:
        print(label, '-> RAISED', type(e).__name__, str(e)[:200])
def show(s):
    for t in s.schedule.tasks:
        print('   ', t.id, t.start, t.end, t.estimate, t.spent, 'ms' if t.milestone else '')
    for r in s.resource_usage.rows():
        print('      row', r.resource.name, r.date.date(), r.task.id, r.units)
def run(label, w, **kw):
    print('==', label)
    try:
        s=ForwardScheduler(**kw).calc(w); show(s); return s
    except BaseException as e:
        print('  RAISED', type(e).__name__, str(e)[:200])
clk.freeze(datetime(2020,1,1))
P=datetime(2026,1,1)  # Thu
# milestone with preds and inherited
w=WBS(); a=w//Task(1, estimate=8); m=w//Task(2, milestone=True, predecessors=[a]); m2=w//Task(3, milestone=True)
run('milestones', w, start=P)
# milestone under summary with pred
w=WBS(); a=w//Task(1, estimate=8); S=w//Task(2, predecessors=[a]); m=S//Task(3, milestone=True)
run('milestone inherits', w, start=P)
# milestone with estimate & resource usage? milestone with fixed start
w=WBS(); m=w//Task(3, milestone=True, start=datetime(2025,5,5), estimate=5)
run('milestone fixed start', w, start=P)
# fixed start, no end
w=WBS(); a=w//Task(1, estimate=8, start=datetime(2026,1,5)); b=w//Task(2, estimate=8)
run('fixed start future', w, start=P)
# fixed start in past relative to clock
clk.freeze(datetime(2026,1,7,10))
w=WBS(); a=w//Task(1, estimate=8, start=datetime(2026,1,5)); b=w//Task(2, estimate=8)
run('clock after start; fixed start past', w, start=P)
w=WBS(); a=w//Task(1, estimate=8, start=datetime(2025,1,5), end=datetime(2025,1,6)); b=w//Task(2, estimate=8, predecessors=[a])
run('fixed both past', w, start=P)
clk.freeze(datetime(2020,1,1))
# spent > estimate ; zero work
w=WBS(); a=w//Task(1, estimate=8, spent=10); b=w//Task(2, estimate=0); c=w//Task(3)
run('zero work', w, start=P)
run('zero work weekend start', w, start=datetime(2026,1,3))
# default estimate
run('default_estimate=4', w, start=P, default_estimate=4)
# min_start
w=WBS(); a=w//Task(1, estimate=8, min_start=datetime(2026,1,8,12)); 
run('min_start', w, start=P)
# balance off
w=WBS(); a=w//Task(1, estimate=12); b=w//Task(2, estimate=12)
run('balance off', w, start=P, balance_resources=False)
# fractional capacities
r=Resource('R', WeeklyCalendar(units_per_day={0:2.5,1:0.5,3:3}))
w=WBS(); a=w//Task(1, estimate=3.3, resource='R'); b=w//Task(2, estimate=1.1, resource='R')
run('fractional', w, start=P, resources=[r])
# resource None name & resource list with same name
