from pjplan import Task, WBS
def tryit(label, f):
    try:
        r = f()
        print(label, '-> OK', r if r is not None else '')
    except BaseException as e:
        print(label, '-> RAISED', type(e).__name__, str(e)[:100])
def dump(w):
    return [(t.id, t.parent.id if t.parent else None, t.wbs is w) for t in w.tasks]

# C11: removal leaves wbs
w=WBS(); a=w//Task(1); b=a//Task(2)
w.remove(a)
print('after remove: a.wbs is w', a.wbs is w, 'b.wbs is w', b.wbs is w, 'tasks', dump(w), 'a.parent', a.parent)
w2=WBS()
tryit('reattach removed to w2', lambda: w2.roots.append(a))

# roots assignment leaving out
w=WBS(); a=w//Task(1); b=w//Task(2)
w.roots=[a]
print('left out b.wbs is w', b.wbs is w)

# C05: duplicate id in another branch
w=WBS(); a=w//Task(1); b=w//Task(2); c=a//Task(3)
tryit('dup of other-branch task under b', lambda: b.children.append(Task(3)))
print(dump(w))
tryit('dup at root', lambda: w.roots.append(Task(3)))
# dup via moving within WBS? not possible since ids are unique already.
# dup in detached tree different branch
r=Task(0); x=Task(1,parent=r); y=Task(2,parent=r); z=Task(3,parent=x)
tryit('detached dup other branch', lambda: y.children.append(Task(3)))
# adopt detached subtree containing dup
sub=Task(10); Task(3,parent=sub)
w=WBS(); a=w//Task(1); c=a//Task(3)
tryit('adopt subtree w/ dup deep', lambda: w.roots.append(sub))
print(dump(w))
# dup with the hidden root id?
import sys
tryit('task with id maxsize', lambda: WBS()//Task(sys.maxsize))
# children assign with member tasks + dup new
w=WBS(); a=w//Task(1); b=w//Task(2)
tryit('children=[b, Task(2)]', lambda: setattr(a,'children',[b, Task(2)]))
print(dump(w), 'a.wbs', a.wbs is w, 'b.wbs', b.wbs is w, 'b.parent', b.parent)
# C15: children=[Task(5), Task(5)] on existing children
w=WBS(); a=w//Task(1); b=a//Task(2)
tryit('children=[T5,T5]', lambda: setattr(a,'children',[Task(5), Task(5)]))
print(dump(w), 'b.parent', b.parent, 'b.wbs', b.wbs is w)
