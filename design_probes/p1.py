from pjplan import Task, WBS
import traceback
def tryit(label, f):
    try:
        r = f()
        print(label, '-> OK', r if r is not None else '')
    except BaseException as e:
        print(label, '-> RAISED', type(e).__name__, str(e)[:100])

# C01: self-link
t = Task(1)
def f():
    t.predecessors = [t]
tryit('self pred', f)
print(' preds', [x.id for x in t.predecessors._list], 'succ', [x.id for x in t.successors._list])
tryit('all_pred after self link', lambda: len(t.all_predecessors))

# link then parent
a=Task(1); b=Task(2)
a.predecessors=[b]
tryit('link-then-parent', lambda: setattr(a,'parent',b))
print(' a.parent', a.parent and a.parent.id, 'a.preds', [x.id for x in a.predecessors])

# link then children
a=Task(1); b=Task(2)
a.predecessors=[b]
tryit('link-then-children', lambda: setattr(b,'children',[a]))

# descendant as predecessor
a=Task(1); b=Task(2, parent=a)
tryit('descendant as predecessor', lambda: setattr(a,'predecessors',[b]))
tryit('descendant as successor', lambda: setattr(a,'successors',[b]))

# self as parent
a=Task(1)
tryit('self parent', lambda: setattr(a,'parent',a))
print(' a.parent', a.parent and a.parent.id, [c.id for c in a.children])
a=Task(1)
tryit('self children', lambda: setattr(a,'children',[a]))
print(' a.parent', a.parent and a.parent.id, [c.id for c in a.children._list])

# cycle
a=Task(1); b=Task(2); c=Task(3)
a.predecessors=[b]; b.predecessors=[c]
tryit('cycle', lambda: setattr(c,'predecessors',[a]))
tryit('cycle via succ', lambda: setattr(a,'successors',[c]))

# duplicates
a=Task(1); b=Task(2)
a.predecessors=[b,b]
print('dups', [x.id for x in a.predecessors], [x.id for x in b.successors])
