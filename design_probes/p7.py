from datetime import datetime, timedelta
import clk
from pjplan import Task, WBS, ForwardScheduler, BackwardScheduler, Resource, WeeklyCalendar, DirectCalendar, FixedCalendar
def tryit(label, f):
    try:
        r = f()
        print(label, '-> OK', r if r is not None else '')
    except BaseException as e:
        print(label, '-> RAISED', type(e).__name__, str(e)[:200])
def show(s):
    for t in s.schedule.tasks:
        print('   ', t.id, t.start, t.end, t.estimate, t.spent, type(t.start).__name__)
    for r in s.resource_usage.rows():
        print('      row', r.resource.name, r.date.date(), r.task.id, r.units)
clk.freeze(datetime(2020,1,1))
# 2026-01-01 is a Thursday
w=WBS(); w//Task(1, estimate=10, resource='default'); w//Task(2, estimate=16, resource='default')
s=ForwardScheduler(start=datetime(2026,1,1)).calc(w); show(s)
print('resources', [r.name for r in s.resources])
# project start not at midnight
w=WBS(); w//Task(1, estimate=10)
s=ForwardScheduler(start=datetime(2026,1,1,15,30)).calc(w); show(s)
# start on weekend
s=ForwardScheduler(start=datetime(2026,1,3,15,30)).calc(w); show(s)
# summary with predecessor link
w=WBS(); a=w//Task(1, estimate=8); S=w//Task(2); x=S//Task(3, estimate=8); S.predecessors=[a]
s=ForwardScheduler(start=datetime(2026,1,1)).calc(w); show(s)
# order problem: child reached first through a cross link before its parent's preds
w=WBS(); S=w//Task(2); x=S//Task(3, estimate=8, resource='B'); y=w//Task(4, estimate=8, predecessors=[x], resource='C'); a=w//Task(1, estimate=24, resource='A'); S.predecessors=[a]
# roots order: S(2), 4, 1. visiting S: preds a first → OK. Let's make y first
w.roots.move(y, before=S)
s=ForwardScheduler(start=datetime(2026,1,1)).calc(w); show(s)
