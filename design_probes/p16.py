import os, tempfile
from pjplan import Task, WBS, read_csv, write_csv
d=tempfile.mkdtemp(); p=os.path.join(d,'a.csv')
for nm in ['nul\x00in', 'ls ps ', 'crlf\r\nmid', 'vt\x0bff\x0c', 'x\x85y', '"', '";"', "'", ' ', 'a\n', '\n', ';;;', 'é✓日本', '﻿bom-first']:
    w=WBS(); w//Task(1,nm, note=nm)
    try:
        write_csv(w,p); r=read_csv(p)
        print(repr(nm), 'OK' if (r[1].name==nm and r[1].note==nm) else ('DIFF', repr(r[1].name), repr(r[1].note)))
    except Exception as e: print(repr(nm), 'RAISED', type(e).__name__, e)
