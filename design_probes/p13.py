from datetime import datetime, timedelta
import clk, json, re, html
from pjplan import Task, WBS, ForwardScheduler, MermaidGantt, MermaidNetwork, DhtmlxGantt
clk.freeze(datetime(2020,1,1))
def tryit(label, f):
    try:
        r = f()
        print(label, '-> OK', r if r is not None else 'None')
    except BaseException as e:
        print(label, '-> RAISED', type(e).__name__, str(e)[:150])
w=WBS(); a=w//Task(1,'A: first', estimate=8); S=w//Task(2,'Sum "q" {b} <x> $src $$ ${y}'); b=S//Task(3,'B', estimate=4, predecessors=[a]); m=S//Task(4,'ms ünï', milestone=True, predecessors=[b,a])
s=ForwardScheduler(start=datetime(2026,1,1)).calc(w).schedule
g=MermaidGantt(s).to_html()
print(g[g.index('<div class="mermaid">'):g.index('</div>')])
n=MermaidNetwork(s).to_html()
print(n[n.index('<div class="mermaid">'):n.index('</div>')])
d=DhtmlxGantt(s).to_html()
i=d.index('gantt.parse(')+len('gantt.parse('); 
j=d.index(');', i)
print(d[i:i+1500])
# names that break: name None
w2=WBS(); w2//Task(1, estimate=1)
s2=ForwardScheduler(start=datetime(2026,1,1)).calc(w2).schedule
tryit('gantt None name', lambda: len(MermaidGantt(s2).to_html()))
tryit('network None name', lambda: len(MermaidNetwork(s2).to_html()))
tryit('dhtmlx None name', lambda: len(DhtmlxGantt(s2).to_html()))
# Names containing '$' → Template.substitute is applied to template, not name; safe. Name w/ newline out of domain
# name with "</div>" or "</script>"
w3=WBS(); w3//Task(1,'x</script><script>alert(1)</script>', estimate=1); w3//Task(2,'y -->', estimate=1)
s3=ForwardScheduler(start=datetime(2026,1,1)).calc(w3).schedule
d3=DhtmlxGantt(s3).to_html()
print(d3.count('</script>'))
# sections
w4=WBS(); w4//Task(1,'a',estimate=1,gantt_section='S1'); w4//Task(2,'b',estimate=1); w4//Task(3,'c',estimate=1,gantt_section='S1')
s4=ForwardScheduler(start=datetime(2026,1,1)).calc(w4).schedule
g=MermaidGantt(s4, title='T').to_html(); print(g[g.index('<div class="mermaid">'):g.index('</div>')])
r=MermaidGantt(s4)._repr_html_(); print(r[:200]); print(html.unescape(re.search(r'srcdoc="([^"]*)"', r).group(1))==MermaidGantt(s4).to_html())
# progress
w5=WBS(); w5//Task(1,'a',estimate=4,spent=6); w5//Task(2,'b',estimate=0); w5//Task(3,'c', estimate=4, spent=1)
s5=ForwardScheduler(start=datetime(2026,1,1)).calc(w5).schedule
d5=DhtmlxGantt(s5).to_html(); print(re.findall(r'"progress": [^,]*', d5))
clk.freeze(datetime(2030,1,1))
d5=DhtmlxGantt(s5).to_html(); print(re.findall(r'"progress": [^,]*', d5))
