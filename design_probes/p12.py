from datetime import datetime, timedelta
from pjplan import Resource, WeeklyCalendar, DirectCalendar, FixedCalendar
def tryit(label, f):
    try:
        r = f()
        print(label, '-> OK', r if r is not None else 'None')
    except BaseException as e:
        print(label, '-> RAISED', type(e).__name__, str(e)[:150])
D=datetime(2026,1,5) # Monday
W=WeeklyCalendar(days=[0,1,2,3,4], units_per_day=8)
tryit('weekly start>end', lambda: WeeklyCalendar(start=datetime(2026,2,1), end=datetime(2026,1,1), days=[0], units_per_day=1))
tryit('fixed start>end', lambda: FixedCalendar(1, start=datetime(2026,2,1), end=datetime(2026,1,1)))
tryit('fixed neg', lambda: FixedCalendar(-1))
tryit('weekly dict neg', lambda: WeeklyCalendar(units_per_day={0:-1}))
tryit('weekly dict weekday 9', lambda: WeeklyCalendar(units_per_day={9:1}).get_week_day_hours())
tryit('weekly dict weekday -1', lambda: WeeklyCalendar(units_per_day={-1:1}).get_week_day_hours())
tryit('direct neg', lambda: DirectCalendar({D:-3}).get_available_units(D))
tryit('W/0', lambda: W/0)
tryit('W/0.0', lambda: W/0.0)
tryit('W/FixedCalendar(0)', lambda: (W/FixedCalendar(0)).get_available_units(D))
tryit('W*2', lambda: (W*2).get_available_units(D))
tryit('W*-2', lambda: (W*-2).get_available_units(D))
tryit('W+-2', lambda: (W+-20).get_available_units(D))
tryit('2*W (radd)', lambda: (2*W).get_available_units(D))
tryit('W-10', lambda: (W-10).get_available_units(D))
tryit('W-8', lambda: (W-8).get_available_units(D))
tryit('W|5 sat', lambda: (W|5).get_available_units(D+timedelta(days=5)))
tryit('W|0 sat', lambda: (W|0).get_available_units(D+timedelta(days=5)))
tryit('W * True', lambda: (W*True).get_available_units(D))
# bounded weekly, boundaries with time of day
B=WeeklyCalendar(start=datetime(2026,1,5), end=datetime(2026,1,9), days=[0,1,2,3,4], units_per_day=8)
for d in [datetime(2026,1,4,23,59), datetime(2026,1,5), datetime(2026,1,5,10), datetime(2026,1,9), datetime(2026,1,9,0,0,1), datetime(2026,1,9,15)]:
    print('bounded weekly', d, B.get_available_units(d))
F=FixedCalendar(3, start=datetime(2026,1,5), end=datetime(2026,1,9))
for d in [datetime(2026,1,4,23,59), datetime(2026,1,5), datetime(2026,1,9), datetime(2026,1,9,15)]:
    print('bounded fixed', d, F.get_available_units(d))
DC=DirectCalendar({datetime(2026,1,5,13):4})
print('direct', DC.get_available_units(datetime(2026,1,5)), DC.get_available_units(datetime(2026,1,5,23)), DC.get_available_units(datetime(2026,1,6)))
DC.set_units({datetime(2026,1,6,13):2}); print('direct set_units non-midnight key', DC.get_available_units(datetime(2026,1,6)), DC.get_available_units(datetime(2026,1,6,13)))
# sum with None skipping
print('B + DC outside B', (B+DC).get_available_units(datetime(2026,1,12)), (B+DC).get_available_units(datetime(2026,1,5)))
print('DC - B', (DC-B).get_available_units(datetime(2026,1,5)), 'B - DC on 1/7', (B-DC).get_available_units(datetime(2026,1,7)))
print('DC - B outside DC: ', (DC-B).get_available_units(datetime(2026,1,7)))
# resource
R=Resource('r', DC)
print('resource none->0', R.get_available_units(datetime(2026,1,8)))
# search
R=Resource('r', W)
print('fwd from Sat 15:30', R.get_nearest_availability_date(datetime(2026,1,10,15,30), 1))
print('bwd from Mon 15:30', R.get_nearest_availability_date(datetime(2026,1,12,15,30), -1))
print('bwd from Sun 15:30', R.get_nearest_availability_date(datetime(2026,1,11,15,30), -1))
print('bwd from Sat 00:00', R.get_nearest_availability_date(datetime(2026,1,10), -1))
R=Resource('r', DirectCalendar({datetime(2026,1,20):1}))
tryit('horizon 10 from 1/10', lambda: R.get_nearest_availability_date(datetime(2026,1,10), 1, max_days=10))
tryit('horizon 11 from 1/10', lambda: R.get_nearest_availability_date(datetime(2026,1,10), 1, max_days=11))
tryit('horizon 0', lambda: R.get_nearest_availability_date(datetime(2026,1,20), 1, max_days=0))
tryit('bwd horizon', lambda: R.get_nearest_availability_date(datetime(2026,1,25), -1, max_days=4))
tryit('bwd horizon5', lambda: R.get_nearest_availability_date(datetime(2026,1,25), -1, max_days=5))
tryit('direction 0', lambda: R.get_nearest_availability_date(datetime(2026,1,25), 0, max_days=5))
tryit('direction 2', lambda: R.get_nearest_availability_date(datetime(2026,1,16), 2, max_days=5))
# far-future overflow
tryit('overflow', lambda: Resource('z', FixedCalendar(0)).get_nearest_availability_date(datetime(9999,1,1), 1))
tryit('repr', lambda: repr(W+1)[:10])
tryit('repr W+W', lambda: repr(W+W)[:10])
tryit('repr W|W', lambda: repr(W|W)[:10])
