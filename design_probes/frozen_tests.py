# run the four clock-dependent repo tests under a frozen clock (2025-12-01)
import sys, datetime as _dt
REAL=_dt.datetime
class _M(type(REAL)):
    def __instancecheck__(c,o): return type.__instancecheck__(REAL,o)
class Clock(REAL, metaclass=_M):
    @classmethod
    def now(cls, tz=None): return REAL.__new__(cls, 2025,12,1)
_dt.datetime=Clock
import pytest
sys.exit(pytest.main(['-q','-p','no:cacheprovider','/repo/tests/test_pjplan/test_schedule.py']))
