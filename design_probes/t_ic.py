import sys, time
sys.path.insert(0, '/tmp/explore/deps')
import icontract
from pjplan import Task, WBS
import pjplan.task as T
class InvariantBroken(Exception): pass
count = [0]
def children_report_parent(self):
    count[0] += 1
    return all(c.parent is self or self.id == T.EMPTY_TASK_ID for c in self.children)
T2 = icontract.invariant(children_report_parent, error=InvariantBroken)(Task)
print('same class', T2 is Task)
a = Task(1); b = Task(2)
a.children.append(b)       # goes through b.parent setter
print('evals after append', count[0])
b.parent = None
print('evals after parent=None', count[0])
a.parent = a   # self parent: a in a.children; a.parent is a → invariant still true
print('evals', count[0])
# postcondition on setter: can we wrap property?
def pre(self, parent): return True
try:
    w = WBS(); w // Task(3)
    print('wbs ok', count[0])
except Exception as e:
    print('ERR', type(e), e)
