from datetime import datetime, timedelta
import time
import clk
from pjplan import Task, WBS, ForwardScheduler, BackwardScheduler, Resource, WeeklyCalendar, DirectCalendar, FixedCalendar
clk.freeze(datetime(2020,1,1))
P=datetime(2026,1,1)
def run(label, w, sched='F', **kw):
    t0=time.time()
    try:
        if sched=='F': s=ForwardScheduler(start=P, **kw).calc(w)
        else: s=BackwardScheduler(end=P, **kw).calc(w)
        print(label, sched, '-> OK', [(t.id,str(t.start),str(t.end)) for t in s.schedule.tasks], f'{time.time()-t0:.2f}s')
    except BaseException as e:
        print(label, sched, '-> RAISED', type(e).__name__, str(e)[:120], f'{time.time()-t0:.2f}s')
def both(label, mk, **kw):
    run(label, mk(), 'F', **kw); run(label, mk(), 'B', **kw)
# external pred w/o dates
def mk():
    e=Task(100); w=WBS(); w//Task(1, estimate=8, predecessors=[e]); return w
both('ext pred no dates', mk)
def mk():
    e=Task(100, start=datetime(2026,2,1), end=datetime(2026,2,5)); w=WBS(); w//Task(1, estimate=8, predecessors=[e]); return w
both('ext pred with dates', mk)
# ext successor (backward)
def mk():
    e=Task(100); w=WBS(); w//Task(1, estimate=8, successors=[e]); return w
both('ext succ no dates', mk)
# fixed end in the future
def mk():
    w=WBS(); w//Task(1, estimate=8, end=datetime(2026,3,1)); return w
both('fixed end future', mk)
# resource never available
def mk():
    w=WBS(); w//Task(1, estimate=8, resource='Z'); return w
both('zero cap resource', mk, resources=[Resource('Z', FixedCalendar(0))])
both('empty direct cal', mk, resources=[Resource('Z', DirectCalendar({}))])
both('bounded weekly past', mk, resources=[Resource('Z', WeeklyCalendar(days=[0,1,2,3,4], units_per_day=8, end=datetime(2025,1,1)))])
both('bounded weekly future only', mk, resources=[Resource('Z', WeeklyCalendar(days=[0,1,2,3,4], units_per_day=8, start=datetime(2027,1,1)))])
# capacity exists but too little: direct calendar with one day of 1 unit
both('insufficient capacity', mk, resources=[Resource('Z', DirectCalendar({datetime(2026,1,5):1, datetime(2025,12,29):1}))])
# zero work on never-available resource
def mk0():
    w=WBS(); w//Task(1, estimate=0, resource='Z'); return w
both('zero work zero cap', mk0, resources=[Resource('Z', FixedCalendar(0))])
# hierarchy cycle
def mk():
    w=WBS(); S=w//Task(1); L=S//Task(2, estimate=1); X=w//Task(3, estimate=1); L.predecessors=[X]; X.predecessors=[S]; return w
both('hierarchy cycle', mk)
# negative capacity through Sub? returns None. Through FuncCalendar negative
def mkn():
    w=WBS(); w//Task(1, estimate=8, resource='Z'); return w
both('neg capacity func', mkn, resources=[Resource('Z', WeeklyCalendar(days=[0,1,2,3,4], units_per_day=8).apply(lambda u: -1 if u else u))])
# division calendars: weekly / weekly with zero → ZeroDivisionError
both('div by zero-cap calendar', mkn, resources=[Resource('Z', WeeklyCalendar(days=[0,1,2,3,4], units_per_day=8) / WeeklyCalendar(days=[0,1], units_per_day=2))])
# empty WBS
both('empty', lambda: WBS())
# summary without leaf children? can't be. milestone summary
def mk():
    w=WBS(); S=w//Task(1, milestone=True); S//Task(2, estimate=8); return w
both('milestone summary', mk)
# task with resource name not str
def mk():
    w=WBS(); w//Task(1, estimate=8, resource=5); return w
both('int resource', mk)
# string estimate? out of domain
# duplicate resource names
both('dup resource names', mkn, resources=[Resource('Z', FixedCalendar(0)), Resource('Z')])
# task name None in loop error message: "Found circle" uses task.name + str → TypeError if name None, but loops can't be created
