from pjplan import Task, WBS
ids=lambda l:[t.id for t in l]
def tryit(label, f):
    try:
        r = f(); print(label, '-> OK', r if r is not None else '')
    except BaseException as e: print(label, '-> RAISED', type(e).__name__, str(e)[:100])
w=WBS(); a=w//Task(1); b=w//Task(2); c=b//Task(3); d=w//Task(4)
# bulk parent: moving [1,2] under 3: 1 ok; 2 is ancestor of 3 → raise
tryit('bulk parent partial', lambda: setattr(w.roots(id_in_=[1,2]), 'parent', c))
print([(t.id, t.parent.id if t.parent else None) for t in w.tasks])
w=WBS(); a=w//Task(1); b=w//Task(2)
tryit('bulk estimate -1', lambda: setattr(w.tasks, 'estimate', -1)); print(w.tasks.estimate)
# list << other partial
w=WBS(); a=w//Task(1); b=w//Task(2); c=w//Task(3); c.predecessors=[b]
tryit('list<<c partial', lambda: w.tasks(id_in_=[1,2]) << c); print([(t.id, ids(t.predecessors)) for t in w.tasks])
# generator argument raising
def gen():
    yield Task(10); raise ValueError('boom')
w=WBS(); a=w//Task(1); a//Task(2)
tryit('children=gen raising', lambda: setattr(a,'children',gen())); print(ids(a.children))
# wbs.remove_all partial? 
# children.remove on list facade stale: hold facade, mutate, then use
w=WBS(); a=w//Task(1); b=w//Task(2); r=w.roots; w.roots=[b]; print('stale facade', ids(r), ids(w.roots)); 
tryit('stale facade append', lambda: r.append(Task(5))); print(ids(r), ids(w.roots))
r=w.roots; r.sort('id', reverse=True); print('after sort held', ids(r), ids(w.roots)); r.append(Task(6)); print(ids(r), ids(w.roots))
# move via stale after sort
r=w.roots; r.sort('id'); r.move(r[0], after=r[1]); print('sort then move on same facade', ids(r), ids(w.roots), ids(w.tasks))
