"""W-SCHED monitors: C02 C03 C04 C06 C07 C08 C09 C14 (DESIGN 5).

One execution of a generated schedule case feeds all oracles; a check counts and reports only its
own property.  Observation channels: the ProbeResource event log (queries/reservations in order),
the returned Schedule, snapshots of the input around calc, and run pairs.
"""
import collections
import copy

import vf.env  # noqa: F401
from vf.env import REAL, td, day, set_now, Clock
from vf import core, sched, calast, steps
from vf.sched import BudgetExceeded, rname

EPS = 1e-9
MS = td(milliseconds=1)

_ASSUME = [
    'D1 well-formed input (effective dependency graph acyclic) except in the C14 classes',
    'D2 milestones are leaves; D3 one capacity per calendar day (day-aligned validity bounds)',
    'D4 float tolerance 1e-9 relative, timestamps within 1 ms; dust rows (<EPS) ignored by day-range clauses',
    'bounded: <=14 tasks, <=4 resources; clock controlled by the harness (vf.env.Clock)',
]
META = {
    'C02': dict(level='exploration', required=['schedules_ok', 'leaves_with_inherited_prereq', 'reached_before_parent', 'milestones_checked'],
                rule='forward schedules of generated WBS x calendars x configs under a controlled clock; every unfixed leaf: start '
                     'day and every ledger day >= day of every effective prerequisite end / project start / min_start / clock; '
                     'milestones at the latest prerequisite end. evaluations = leaves judged; non-trivial = leaf with >=1 effective '
                     'prerequisite; distinct = (#own prereqs, #inherited, reached-before-parent, milestone, config class, shape)',
                assumptions=_ASSUME),
    'C03': dict(level='exploration', required=['schedules_ok', 'rows_checked', 'reserve_events', 'shared_cells', 'full_cells'],
                rule='both schedulers; every reserve event (online, at the IResource.reserve hook) and every usage row (offline): '
                     'positive, right resource, capacity day, per-day sums within capacity (per task when balancing is off), '
                     'reserved()/rows(filter) agree, event log == rows, default resources. evaluations = rows+events judged; '
                     'non-trivial = (resource, day) cell shared by >=2 tasks or filled to capacity; distinct = cell signature',
                assumptions=_ASSUME),
    'C04': dict(level='exploration', required=['schedules_ok', 'leaves_with_work'],
                rule='both schedulers; per non-milestone, non-completed leaf: reserved sum == max(est-spent,0), once per day, rows '
                     'within [start day, end), not before the clock day (forward), start/end vs first/last reserved day; milestones, '
                     'completed and summary tasks reserve nothing; fixed dates unchanged. non-trivial = leaf with work>0; distinct = '
                     '(#days, partial first day, spent>est, default estimate, fixed, dir, balance)',
                assumptions=_ASSUME),
    'C06': dict(level='exploration', required=['schedules_ok', 'rerun_pairs', 'clock_pairs'],
                rule='both schedulers; input snapshot equal around calc (returning or raising); result structurally equal to input, '
                     'no shared task objects, every task dated; same scheduler re-used and a fresh one give equal dates/rows; '
                     'forward clock pairs under D5. evaluations = runs compared; non-trivial = case with >=2 tasks and >=1 row; '
                     'distinct = case shape x config', assumptions=_ASSUME + ['D5 clock premise: clock <= midnight of the project-start day and <= every user-fixed start; cases with fixed ends excluded from clock pairs']),
    'C07': dict(level='exploration', required=['schedules_ok', 'summaries_checked'],
                rule='both schedulers; every task start<=end; every summary start/end/estimate/spent == roll-up of children (junk '
                     'values on summaries in the input); WBS.start/.end == min/max over all tasks. non-trivial = summary with >=2 '
                     'children or junk input; distinct = (#children, depth, junk, dir, non-midnight start)', assumptions=_ASSUME),
    'C08': dict(level='exploration', required=['schedules_ok', 'tight_leaves', 'encoding_checked', 'order_pairs', 'removal_pairs'],
                rule='forward, balancing on: per unfixed leaf no day with free capacity between release day and last work day; '
                     'start/end timestamps encode the share booked before/up to the task (read off the ordered reserve events, D5); '
                     'dependency-free leaves get capacity in WBS order; balancing off: dates unchanged when an unrelated tree is '
                     'removed. non-trivial = leaf that starts on a partially booked day or crosses a calendar gap; distinct = '
                     'signature of (partial start, gap, days, calendar shape)', assumptions=_ASSUME + ['D5 for the encoding clause']),
    'C09': dict(level='exploration', required=['schedules_ok', 'deps_checked', 'late_pack_checked', 'encoding_checked'],
                rule='backward schedules: no end after the project end; pred.end <= succ.start for own and inherited dependencies; '
                     'balancing on: days after the end day and before the due date fully booked, no gap inside the task, '
                     'end-of-day encoding of start and computed end. non-trivial = leaf with a successor or a partially booked '
                     'day; distinct = signature', assumptions=_ASSUME + ['partial due day not demanded; encoding with balancing on only']),
    'C14': dict(level='exploration', required=['calcs', 'unschedulable_cases', 'cycle_through_hierarchy_cases', 'runtime_errors_seen', 'step_budget_cases'],
                rule='both schedulers on unfiltered W-SCHED inputs plus the unschedulable classes; outcome must be a schedule or '
                     'RuntimeError (RecursionError = crash), RuntimeError for the four stated unschedulable classes, and at most '
                     'B = leaves*(3*100001+64)+10*tasks^2 capacity queries per calc (bounded progress; budget exception at the '
                     'capacity hook); on chains of 9-13 phases with default resources at most 300*tasks^2+5000 calls of functions '
                     'of pjplan/schedule.py per calc (sys.monitoring PY_START on that file\'s code objects; budget exception in the '
                     'callback). non-trivial = unschedulable case or case that raised; distinct = (class, outcome, dir)',
                assumptions=['structural invariants of C01 hold for every input (built through the public API)',
                             'wall watchdog per shard is separate and yields inconclusive']),
}
for _k, _m in META.items():
    _m['rule'] += ('; plus an exhaustive small-scope layer: every forest on <=4 tasks x every set of <=4 links (quick) / <=5 tasks x <=3 '
                   'links (thorough) x fixed calendars, both balance settings, 2 clock positions (counter exhaustive_small_scope_cases)')


# ------------------------------------------------------------------------------------------
# helpers over the case spec
# ------------------------------------------------------------------------------------------
class Ctx:
    pass


def analyse(case):
    c = Ctx()
    tasks = case['tasks']
    c.n = len(tasks)
    c.ch = sched.children_of(tasks)
    c.anc = {i: sched.ancestors_of(tasks, i) for i in range(c.n)}
    c.preds = {i: [] for i in range(c.n)}
    c.succs = {i: [] for i in range(c.n)}
    for s_, p_ in case['links']:
        c.preds[s_].append(p_)
        c.succs[p_].append(s_)
    c.extpred = {i: [] for i in range(c.n)}
    c.extsucc = {i: [] for i in range(c.n)}
    for e in case.get('externals') or []:
        for i in e['succ']:
            c.extpred[i].append(e)
        for i in e.get('succ_of') or []:
            c.extsucc[i].append(e)
    c.leaves = [i for i in range(c.n) if not c.ch[i]]
    c.idx = {t['id']: i for i, t in enumerate(tasks)}
    # DFS (WBS) order
    order = []

    def walk(i):
        order.append(i)
        for k in c.ch[i]:
            walk(k)
    for i in range(c.n):
        if tasks[i]['parent'] is None:
            walk(i)
    c.order = order
    return c


def eff_pred_leaves(case, c, i):
    """(own leaf prerequisites, inherited leaf prerequisites, external prerequisites) of task index i"""
    own, inh, ext = [], [], []
    for p in c.preds[i]:
        own += sched.leaves_under(case['tasks'], c.ch, p)
    ext += c.extpred[i]
    for a in c.anc[i]:
        for p in c.preds[a]:
            inh += sched.leaves_under(case['tasks'], c.ch, p)
        ext += c.extpred[a]
    return own, inh, ext


def eff_succ_tasks(case, c, i):
    own = list(c.succs[i])
    inh = []
    for a in c.anc[i]:
        inh += c.succs[a]
    return own, inh


def reached_before_parent(case, c, direction='fwd'):
    """replays the documented traversal (roots in order; per task: predecessors first, then children,
    then the task) and returns the set of task indexes first reached through a dependency edge while
    an ancestor had not been entered yet."""
    entered = set()
    done = set()
    early = set()
    link = c.preds if direction == 'fwd' else c.succs

    def visit(i, via_link):
        if i in done or i in entered:
            return
        if via_link and any(a not in entered for a in c.anc[i]):
            early.add(i)
        entered.add(i)
        for p in link[i]:
            visit(p, True)
        kids = c.ch[i] if direction == 'fwd' else list(reversed(c.ch[i]))
        for k in kids:
            visit(k, False)
        done.add(i)
    roots = [i for i in range(c.n) if case['tasks'][i]['parent'] is None]
    if direction == 'bwd':
        roots = list(reversed(roots))
    for r in roots:
        visit(r, False)
    return early


def sig_of(res):
    s = res.schedule
    return ([(t.id, t.start, t.end, t.estimate, t.spent) for t in s.tasks],
            [(r.resource.name, r.date, r.task.id, r.units) for r in res.resource_usage.rows()])


def classify_outcome(e):
    if isinstance(e, BudgetExceeded):
        return 'budget'
    if isinstance(e, steps.StepBudgetExceeded):
        return 'steps'
    if isinstance(e, RecursionError):
        return 'RecursionError'
    if isinstance(e, RuntimeError):
        return 'RuntimeError'
    return type(e).__name__


def step_limit(case):
    """calls of functions of pjplan/schedule.py one calc may make on a plan whose resources are all default ones (8 units on
    working days, so no long searches): the unchanged code needs about 1.6*n^2 on the deepest chains generated; the bound
    leaves room for any polynomial pre-flight (n^3 < 300*n^2 for the sizes generated) and only cuts off path enumeration"""
    n = len(case['tasks'])
    return 300 * n * n + 5000


def run_calc(case, b, schd=None):
    if schd is None:
        # the scheduler object may have been created long before calc is called (a notebook cell run yesterday)
        set_now(case.get('built_at') or case['now'])
        schd = sched.scheduler(case, b)
    set_now(case['now'])
    armed = bool(case.get('step_budget')) and steps.install()
    try:
        if armed:
            steps.arm(step_limit(case))
        return schd, schd.calc(b.wbs), 'ok', None
    except BaseException as e:  # BudgetExceeded is a BaseException
        if isinstance(e, (KeyboardInterrupt, SystemExit)):
            raise
        return schd, None, classify_outcome(e), e
    finally:
        if armed:
            case['_steps'] = steps.disarm()


def conf_class(case):
    return (case['dir'], case['balance'], case['default_estimate'] != 0,
            'clk<' if case['now'] < day(case['date']) else 'clk=' if case['now'] <= case['date'] else 'clk>',
            case['date'] != day(case['date']))


def unschedulable_classes(case, c):
    out = []
    if sched.effective_cycle(case['tasks'], case['links']):
        out.append('cycle-through-hierarchy')
    for e in case.get('externals') or []:
        if e['succ'] and (e['start'] is None or e['end'] is None):
            out.append('external-predecessor-without-dates')
            break
    if case['dir'] == 'fwd':
        for t in case['tasks']:
            if t['end'] is not None and t['end'] > case['now']:
                out.append('fixed-end-in-future')
                break
    for i in c.leaves:
        t = case['tasks'][i]
        ast = case['resources'].get(rname(t['resource']), 'missing')
        if ast != 'missing' and ast[0] == 'never':
            est = t['estimate'] if t['estimate'] is not None else case['default_estimate']
            work = max(est - (t['spent'] or 0), 0)
            unfixed = t['start'] is None if case['dir'] == 'fwd' else True
            if not t['milestone'] and (work > 0 or unfixed) and not (case['dir'] == 'fwd' and t['end'] is not None):
                out.append('resource-never-available')
                break
    return out


# ------------------------------------------------------------------------------------------
# the judge
# ------------------------------------------------------------------------------------------
def judge(prop, case, acc):
    c = analyse(case)
    case = _materialise(case)
    try:
        b = sched.build(case, log_queries=prop in ('C08', 'C09'))
    except Exception as e:
        acc.count('unbuildable:' + type(e).__name__)
        return
    V = []   # (prop, key, msg)

    def viol(p, key, msg):
        V.append((p, f'{p}/{key}', msg))

    if case.get('alias_probe'):
        # aliasing probe: what accessors hand out must be copies -- editing it must not reach the shared default calendar
        import pjplan
        try:
            d_ = pjplan.DEFAULT_CALENDAR.get_week_day_hours()
            d_[5] = 8
            d_[0] = 0
        except Exception:
            pass
        acc.count('alias_probes')
    before = sched.wbs_snapshot(b.wbs, b.externals)
    in_ids = {id(t) for t in b.wbs.tasks}
    clock0 = Clock.calls
    schd = None
    if case.get('warm'):
        # the judged calc is the second one on the same scheduler object and the same resource objects (users re-run
        # calc after editing a plan); on correct code it equals a cold run, so every oracle applies unchanged
        edited = case.get('warm') == 'edited-calendar'
        if edited:
            # between the two runs the planner edits the calendars of the resources (a holiday, shorter days): the first run
            # sees generous calendars on the very same resource objects, the judged run the calendars of the case
            sparse = case['tasks'] and case['tasks'][0]['id'] % 2 == 0
            for p_ in b.probes:
                # generous first (capacity is taken away afterwards) or sparse first (capacity is added afterwards)
                p_.calendar = calast.build(['weekly', {'days': [0], 'units': 4}] if sparse else ['weekly', {'days': [0, 1, 2, 3, 4, 5, 6], 'units': 24}])
            acc.count('warm_runs_before_calendar_edit')
        schd, _r0, o0, _e0 = run_calc(case, b)
        if edited:
            for p_ in b.probes:
                if p_.ast[0] == 'direct' and len(p_.ast) == 2 and p_.ast[1]:
                    # a dated calendar is edited in place through its public set_units (same calendar object)
                    from pjplan import DirectCalendar
                    c_ = DirectCalendar({d_: (0 if sparse else 24) for d_, _u in p_.ast[1]})
                    p_.calendar = c_
                    run_calc(case, b, schd)
                    c_.set_units({d_: u_ for d_, u_ in p_.ast[1]})
                else:
                    p_.calendar = calast.build(p_.ast)
        acc.count('warm_runs')
        b.shared['events'].clear()
        b.shared['queries'] = 0
        before = sched.wbs_snapshot(b.wbs, b.externals)
    schd, res, outcome, exc = run_calc(case, b, schd)
    after = sched.wbs_snapshot(b.wbs, b.externals)
    acc.count('calcs')
    acc.count('outcome:' + case['dir'] + ':' + outcome)
    unsched = unschedulable_classes(case, c)

    # ---------------------------------------------------------------- C14
    if prop == 'C14':
        acc.ev()
        acc.count('queries', b.shared['queries'])
        if unsched:
            acc.count('unschedulable_cases')
            for u in unsched:
                acc.count('unsched:' + u)
            if 'cycle-through-hierarchy' in unsched:
                acc.count('cycle_through_hierarchy_cases')
        if outcome == 'RuntimeError':
            acc.count('runtime_errors_seen')
        if unsched or outcome != 'ok':
            acc.sig(tuple(unsched), outcome, case['dir'], case['balance'])
        if case.get('step_budget'):
            if '_steps' in case:
                acc.count('step_budget_cases')
                acc.count('steps_counted', case['_steps'])
            else:
                acc.count('step_monitor_unavailable')
        if outcome == 'budget':
            viol('C14', f"unbounded-progress/{case['dir']}", f"more than {b.shared['budget']} capacity queries in one calc")
        elif outcome == 'steps':
            viol('C14', f"unbounded-progress/steps-without-capacity-query/{case['dir']}",
                 f"more than {step_limit(case)} calls inside pjplan/schedule.py for a plan of {len(case['tasks'])} tasks on default resources (chain of phases): the work grows exponentially with the number of phases")
        elif outcome not in ('ok', 'RuntimeError'):
            viol('C14', f"{outcome}/{case['dir']}" + _c14_mech(case, exc), f"calc raised {outcome}: {str(exc)[:120]}")
        elif outcome == 'ok' and unsched:
            viol('C14', f"schedule-returned-for-unschedulable/{unsched[0]}/{case['dir']}",
                 f'calc returned a schedule although the input cannot be scheduled ({unsched})')
    # ---------------------------------------------------------------- C06 purity (also when raising)
    if before != after:
        what = 'external-task-mutated' if [x for x in before if x[0] != 'ext'] == [x for x in after if x[0] != 'ext'] else 'input-mutated'
        viol('C06', f"{what}/{case['dir']}/{'ok' if outcome == 'ok' else 'raise'}", f'input changed by calc ({outcome}): {_first_diff(before, after)}')
    if prop == 'C06':
        acc.ev()
    if outcome != 'ok':
        if unsched or case.get('class') != 'wellformed':
            _report(prop, V, case, acc)
            return
        # a well-formed, schedulable case that raised RuntimeError: legitimate diagnosis only for C14; other
        # properties quantify over produced schedules
        acc.count('wellformed_case_raised:' + outcome)
        if prop == 'C06' and outcome == 'RuntimeError' and case['dir'] == 'fwd' and 'end date in future' in str(exc):
            # the diagnosis names a condition that can be checked: no task of the plan ends after the clock of this run, so the plan
            # is schedulable and C06 demands a schedule (a refusal that depends on anything but WBS, resources, start and clock)
            now_ = vf.env.plain(Clock._now)
            if not any(t['end'] is not None and t['end'] > now_ for t in case['tasks']):
                acc.count('end_in_future_diagnoses_checked')
                viol('C06', 'schedulable-plan-refused/end-in-future-diagnosis-without-such-end', f'calc refused the plan ({str(exc)[:80]}) although no task ends after the clock {now_}')
            else:
                acc.count('end_in_future_diagnoses_checked')
        _report(prop, V, case, acc)
        return
    if unsched:
        _report(prop, V, case, acc)
        return
    if case.get('class') != 'wellformed':
        # outside D1-D3 only "RuntimeError or a schedule" is demanded
        _report(prop, V, case, acc)
        return

    acc.count('schedules_ok')
    if case.get('task_caps'):
        acc.count('schedules_with_task_dependent_capacity')
    if case['dir'] == 'fwd' and Clock.calls == 0 and any(t['start'] is None and not t['milestone'] for t in case['tasks'] if True):
        acc.inconclusive.append('forward calc with unfixed tasks ran although the process never read the clock: the clock hook does not control the code')

    s = res.schedule
    raw_rows = res.resource_usage.rows()

    class _Row:      # a usage row seen at day granularity (the time of day of a row's date is not part of any property)
        __slots__ = ('resource', 'date', 'task', 'units', 'raw')

        def __init__(self, r):
            self.resource, self.date, self.task, self.units, self.raw = r.resource, day(r.date), r.task, r.units, r
    rows = [_Row(r) for r in raw_rows]
    resmap = {}
    for r in res.resources:
        resmap[r.name] = r
    T = {}
    for t in s.tasks:
        T[c.idx.get(t.id, -1)] = t
    spec = case['tasks']
    start_or_end = case['date']
    now = case['now']
    fwd = case['dir'] == 'fwd'
    bal = case['balance']
    # rows that do not belong to this schedule (resource object not in Schedule.resources, or task object not in the
    # returned WBS) are a C03 violation; the other oracles judge the schedule's own rows
    own_ids = {id(t) for t in s.tasks}
    foreign = [r for r in rows if all(r.resource is not x for x in res.resources) or id(r.task) not in own_ids]
    if foreign:
        r0 = foreign[0]
        viol('C03', 'row-not-of-this-schedule', f'{len(foreign)} of {len(rows)} usage rows belong to another calculation (e.g. {getattr(r0.resource, "name", None)!r} {r0.date} task {r0.task.id} units {r0.units})')
        viol('C04', 'rows-of-tasks-outside-the-schedule', f'{len(foreign)} usage rows reserve work for tasks that are not in the returned WBS')
        rows = [r for r in rows if r not in foreign]
    by_task = collections.defaultdict(list)
    for r in rows:
        by_task[r.task.id].append(r)
    events = [e for e in b.shared['events'] if e[0] == 'r']

    def capd(resname, d):
        return sched.capacity(case, resname, d)

    def tol(x):
        return EPS * max(1.0, abs(x))

    # float dust guard (D4): a row below 1e-9 or a cell whose free capacity is in (0, 1e-9) means binary rounding
    # decided where work went; such cases are judged only by the tolerance-based clauses
    usage0 = collections.defaultdict(float)
    cell_units = collections.defaultdict(list)
    for r in rows:
        usage0[(r.resource.name, r.date)] += r.units
        cell_units[(r.resource.name, r.date)].append(r.units)

    def _near_full(k, v):
        cp_ = capd(k[0], k[1])
        return 0 < abs(cp_ - v) < 1e-9 * max(1.0, cp_)
    # both summation orders count: the ledger totals a day with the builtin sum() (compensated for floats since
    # Python 3.12), which can differ in the last bit from a running total
    dusty = any(0 < r.units < 1e-9 for r in rows) or any(_near_full(k, v) for k, v in usage0.items()) or \
        any(_near_full(k, sum(v, 0)) for k, v in cell_units.items()) or \
        any(_near_full(k, sum(v[:j], 0)) for k, v in cell_units.items() for j in range(1, len(v)))
    if dusty:
        acc.count('dusty_cases')

    # ---------------------------------------------------------------- C06 structure / determinism
    res_ids = {id(t) for t in s.tasks}
    if in_ids & res_ids or s is b.wbs:
        viol('C06', 'result-shares-task-objects', 'the returned WBS shares task objects with the input')
    st_in = [(x[0], x[1], x[2], frozenset(x[3]), frozenset(x[4])) for x in before if x[0] != 'ext']
    st_out = [(t.id, t.parent.id if t.parent else None, tuple(k.id for k in t.children), frozenset(p.id for p in t.predecessors),
               frozenset(q.id for q in t.successors)) for t in s.tasks]
    if st_in != st_out:
        viol('C06', 'result-structure-differs', f'ids/hierarchy/order/links differ: {_first_diff(st_in, st_out)}')
    else:
        # links that leave the WBS stay attached to the same outside objects
        in_objs = {t.id: t for t in b.wbs.tasks}
        member_in = {id(t) for t in b.wbs.tasks}
        for rt_ in s.tasks:
            o_ = in_objs.get(rt_.id)
            if o_ is None:
                continue
            for kind_ in ('predecessors', 'successors'):
                want_ = sorted(id(x) for x in getattr(o_, kind_) if id(x) not in member_in)
                got_ = sorted(id(x) for x in getattr(rt_, kind_) if id(x) not in res_ids)
                if want_ != got_:
                    viol('C06', f'outside-{kind_}-differ', f'task {rt_.id}: links to tasks outside the WBS differ between input and result')
    for k, v in (case.get('wbs_attrs') or {}).items():
        got_ = getattr(s, k, '<attribute missing>')
        if got_ != v or type(got_) is not type(v):
            viol('C06', 'wbs-attribute-lost', f'attribute {k} of the plan: {got_!r} != {v!r}')
    for i, t in enumerate(spec):
        rt = T.get(i)
        if rt is None:
            continue
        for k, v in (t.get('attrs') or {}).items():
            got_ = getattr(rt, k, '<attribute missing>')
            if got_ != v or type(got_) is not type(v):
                viol('C06', 'custom-attribute-lost', f'task {t["id"]} attr {k}: {got_!r} != {v!r}')
        if rt.start is None or rt.end is None:
            viol('C06', 'task-without-dates', f'task {t["id"]} start={rt.start} end={rt.end}')
            if not c.ch[i] and not t['milestone']:
                est_ = t['estimate'] if t['estimate'] is not None else case['default_estimate']
                if max(est_ - (t['spent'] or 0), 0) > 0 and not any(r.task is rt for r in rows):
                    viol('C04', f"conservation/leaf-never-scheduled/{case['dir']}", f'task {t["id"]} has remaining work but came back without dates and without reservations')
                if t['resource'] not in resmap:
                    viol('C03', f"resource-missing-from-result/{case['dir']}", f'resource {t["resource"]!r} named by task {t["id"]} not in Schedule.resources')
    if any(v[0] == 'C06' and 'without-dates' in v[1] for v in V) or len(T) != c.n or -1 in T:
        _report(prop, V, case, acc)
        return
    if prop == 'C06':
        base_sig = sig_of(res)
        if c.n >= 2 and rows:
            acc.sig(_shape(case, c), conf_class(case))
        # looking at the result does not change it
        rows_before_ = [(r.resource.name, r.date, r.task.id, r.units) for r in res.resource_usage.rows()]
        try:
            repr(res.resource_usage)
            repr(res.schedule)
        except Exception:
            pass
        if [(r.resource.name, r.date, r.task.id, r.units) for r in res.resource_usage.rows()] != rows_before_:
            viol('C06', 'report-changed-by-printing', 'rows() of the usage report differ before and after repr(report)')
        if case.get('alias_probe'):
            # between the two runs the caller edits what accessors handed out and the containers he built the calendars from:
            # none of that is an input of the second run
            import pjplan
            try:
                d_ = pjplan.DEFAULT_CALENDAR.get_week_day_hours()
                d_[6] = 8
                d_[1] = 0
            except Exception:
                pass
            for p_ in b.probes:
                for c_ in p_.kept:
                    if isinstance(c_, dict):
                        for k_ in list(c_):
                            c_[k_] = 99
                    else:
                        c_.clear()
                        c_.extend([5, 6])
                try:
                    g_ = p_.calendar.get_week_day_hours()
                    for k_ in list(g_):
                        g_[k_] = 77
                except Exception:
                    pass
            acc.count('alias_edits_between_runs')
        # same scheduler object re-used
        b.shared['events'].clear()
        _, res2, o2, _ = run_calc(case, b, schd)
        acc.ev()
        acc.count('rerun_pairs')
        if o2 != 'ok' or sig_of(res2) != base_sig:
            viol('C06', f"rerun-same-scheduler-differs/{case['dir']}", f'second calc on the same scheduler object: {o2}; {_sigdiff(base_sig, res2)}')
        b2 = sched.build(case)
        _, res3, o3, _ = run_calc(case, b2)
        acc.ev()
        acc.count('rerun_pairs')
        if any(rname(k) not in case['resources'] or case['resources'][rname(k)] == 'missing' for k in resmap):
            acc.count('rerun_pairs_with_default_resources')
        if o3 != 'ok' or sig_of(res3) != base_sig:
            viol('C06', f"rerun-fresh-scheduler-differs/{case['dir']}", f'fresh scheduler, equal inputs: {o3}; {_sigdiff(base_sig, res3)}')
        ends_ = [t['end'] for i, t in enumerate(spec) if t['end'] is not None and not c.ch[i]]
        open_starts = [t['start'] for i, t in enumerate(spec) if t['start'] is not None and t['end'] is None and not c.ch[i] and not t['milestone']]
        if fwd and ends_ and now <= day(case['date']) and all(now <= f for f in open_starts) and all(e_ <= now for e_ in ends_):
            # completed tasks in the plan: every clock from the latest recorded end up to the project start is admissible, the
            # boundary included (an end that equals the clock does not lie in the future)
            alt = dict(case)
            alt['now'] = max(ends_)
            alt.pop('built_at', None)
            b3 = sched.build(alt)
            _, res4, o4, _ = run_calc(alt, b3)
            acc.ev()
            acc.count('clock_pairs_with_completed_tasks')
            if o4 != 'ok' or sig_of(res4) != base_sig:
                viol('C06', 'clock-dependence-under-D5/completed-tasks', f'clock {now} vs clock = latest recorded end {alt["now"]}: {o4}; {_sigdiff(base_sig, res4)}')
        if fwd and not any(t['end'] is not None for t in spec):
            fixed_starts = [t['start'] for i, t in enumerate(spec) if t['start'] is not None and not c.ch[i]]
            d5 = now <= day(case['date']) and all(now <= f for f in fixed_starts)
            alt = dict(case)
            alt['now'] = REAL(2001, 2, 3, 4, 5)
            b3 = sched.build(alt)
            _, res4, o4, _ = run_calc(alt, b3)
            acc.ev()
            differs = o4 != 'ok' or sig_of(res4) != base_sig
            if d5:
                acc.count('clock_pairs')
                if differs:
                    viol('C06', 'clock-dependence-under-D5', f'clock {now} vs 2001-02-03: {o4}; {_sigdiff(base_sig, res4)}')
            elif now <= case['date'] and all(now <= f for f in fixed_starts):
                acc.count('clock_pairs_literal_premise')
                if differs:
                    viol('C06', 'clock-dependence/clock-inside-project-start-day',
                         f'clock {now} (not later than project start {case["date"]}) vs 2001-02-03: {_sigdiff(base_sig, res4)}')

    # ---------------------------------------------------------------- C07
    n_sum = 0
    for i in range(c.n):
        rt = T[i]
        leaf = not c.ch[i]
        if rt.start > rt.end and not dusty and (leaf or all(T[k].start <= T[k].end for k in c.ch[i])):
            if leaf and fwd and spec[i]['start'] is None and spec[i]['end'] is not None and rt.end == spec[i]['end']:
                viol('C07', 'leaf-start-after-end/user-fixed-end-without-start', f'task {rt.id}: only the end {rt.end} was given; the computed start {rt.start} is later')
            elif leaf and fwd and spec[i]['start'] is not None and spec[i]['end'] is None and day(rt.start) == day(rt.end) and rt.start != day(rt.start):
                viol('C07', 'leaf-start-after-end/user-fixed-start-after-encoded-end', f'task {rt.id}: fixed start {rt.start} > computed end {rt.end}')
            else:
                viol('C07', ('leaf' if leaf else 'summary') + '-start-after-end/' + case['dir'], f'task {rt.id}: start {rt.start} > end {rt.end}')
        if not leaf:
            n_sum += 1
            kids = [T[k] for k in c.ch[i]]
            if prop == 'C07':
                acc.ev()
                acc.count('summaries_checked')
                junk = spec[i]['start'] is not None or spec[i]['estimate'] is not None
                if len(kids) >= 2 or junk:
                    acc.sig(len(kids), len(c.anc[i]), junk, case['dir'], case['date'] != day(case['date']), bal)
                if junk:
                    acc.count('summaries_with_junk_input')
            if rt.start != min(k.start for k in kids):
                viol('C07', f"summary-start/{case['dir']}", f'summary {rt.id} start {rt.start} != earliest child start {min(k.start for k in kids)}')
            if rt.end != max(k.end for k in kids):
                viol('C07', f"summary-end/{case['dir']}", f'summary {rt.id} end {rt.end} != latest child end {max(k.end for k in kids)}')
            se = sum(k.estimate for k in kids)
            ss = sum(k.spent for k in kids)
            if rt.estimate is None or abs(rt.estimate - se) > tol(se) * 1000:
                viol('C07', f"summary-estimate/{case['dir']}", f'summary {rt.id} estimate {rt.estimate} != sum of children {se}')
            if rt.spent is None or abs(rt.spent - ss) > tol(ss) * 1000:
                viol('C07', f"summary-spent/{case['dir']}", f'summary {rt.id} spent {rt.spent} != sum of children {ss}')
    if c.n:
        allstart = min(T[i].start for i in range(c.n))
        allend = max(T[i].end for i in range(c.n))
        if prop == 'C07':
            acc.ev()
        if s.start != allstart or s.end != allend:
            viol('C07', f"wbs-start-end/{case['dir']}", f'WBS.start/.end {s.start}/{s.end} != min/max over tasks {allstart}/{allend}')

    # ---------------------------------------------------------------- C03
    cell = collections.defaultdict(float)
    cell_tasks = collections.defaultdict(set)
    for r in rows:
        t_i = c.idx.get(r.task.id)
        if prop == 'C03':
            acc.ev()
            acc.count('rows_checked')
        if not (r.units > 0):
            viol('C03', f"nonpositive-row/{case['dir']}", f'row {r.date} task {r.task.id} units {r.units}')
        tres = spec[t_i]['resource'] if t_i is not None else None
        if t_i is None or r.task is not T[t_i]:
            viol('C03', 'row-task-not-in-result', f'row task {r.task.id} is not a task of the returned WBS')
        elif r.resource is not resmap.get(tres) or r.resource.name != tres:
            viol('C03', f"wrong-resource/{case['dir']}", f'row of task {r.task.id} (resource {tres}) booked on {r.resource.name}')
        cp = capd(r.resource.name, r.date)
        if cp <= 0 and r.units > tol(1):
            viol('C03', f"row-on-day-without-capacity/{case['dir']}", f'{r.units} booked on {r.resource.name} {r.date} (capacity {cp})')
        key = (r.resource.name, r.date) if bal else (r.resource.name, r.date, r.task.id)
        cell[key] += r.units
        cell_tasks[(r.resource.name, r.date)].add(r.task.id)
    for key, v in cell.items():
        cp = capd(key[0], key[1])
        if v > cp + tol(cp):
            viol('C03', f"over-allocation/{case['dir']}/{'balance' if bal else 'per-task'}", f'{key}: {v} booked, capacity {cp}')
        if prop == 'C03':
            shared_ = len(cell_tasks[(key[0], key[1])]) >= 2
            full = abs(v - cp) <= tol(cp)
            if shared_:
                acc.count('shared_cells')
            if full:
                acc.count('full_cells')
            if cp != int(cp):
                acc.count('fractional_capacity_cells')
            if shared_ or full:
                acc.sig(len(cell_tasks[(key[0], key[1])]), full, cp != int(cp), bal, case['dir'], calast.shape(case['resources'][rname(key[0])]) if case['resources'].get(rname(key[0]), 'missing') != 'missing' else 'default')
    if prop == 'C03':
        rep = res.resource_usage
        for (rn, d) in list(cell_tasks)[:40]:
            robj = resmap[rn]
            want = sum(r.units for r in rows if r.resource is robj and r.date == d)
            raw_d = next((r.raw.date for r in rows if r.resource is robj and r.date == d), d)
            got = rep.reserved(robj, raw_d)
            acc.ev()
            if abs(got - want) > tol(want):
                viol('C03', 'reserved-disagrees-with-rows', f'reserved({rn}, {d}) = {got}, rows sum to {want}')
        for t_id in list(by_task)[:6]:
            f = rep.rows(lambda r, t_id=t_id: r.task.id == t_id)
            acc.ev()
            if [(r.resource.name, day(r.date), r.task.id, r.units) for r in f] != [(r.resource.name, r.date, r.task.id, r.units) for r in by_task[t_id]]:
                viol('C03', 'filtered-rows-disagree', f'rows(filter task=={t_id}) differs from the rows of that task')
        if case.get('alias_probe'):
            # what rows() hands out is the caller's to edit; the report of this schedule must not follow
            try:
                mine_ = rep.rows()
                n0_ = len(mine_)
                if n0_:
                    mine_.pop()
                    mine_.reverse()
                acc.count('rows_alias_probes')
                if len(rep.rows()) != n0_:
                    viol('C03', 'report-follows-edits-of-returned-rows', f'after editing the list returned by rows() the report has {len(rep.rows())} rows instead of {n0_}')
            except (AttributeError, TypeError):
                pass     # an immutable sequence cannot be edited: fine
        # event log == rows for probe resources
        probe_names = {p.name for p in b.probes}
        ev_rows = [(e[1], day(e[2]), e[3], e[4]) for e in events]
        led_rows = [(r.resource.name, r.date, r.task.id, r.units) for r in rows if r.resource.name in probe_names]
        acc.count('reserve_events', len(ev_rows))
        # multiset comparison: the order of rows inside the report is not part of the property
        if sorted(ev_rows, key=repr) != sorted(led_rows, key=repr):
            viol('C03', f"report-differs-from-reserve-events/{case['dir']}", f'{len(ev_rows)} reserve events vs {len(led_rows)} report rows on probe resources: {_first_diff(ev_rows, led_rows)}')
        # online-style replay of the reserve hook
        run = collections.defaultdict(float)
        for (rn, d, tid, u) in ev_rows:
            acc.ev()
            k = (rn, d) if bal else (rn, d, tid)
            cp = capd(rn, d)
            if not (u > 0) or run[k] + u > cp + tol(cp):
                viol('C03', f"reserve-hook/{case['dir']}", f'reserve({rn}, {d}, task {tid}, {u}) with {run[k]} already booked, capacity {cp}')
            run[k] += u
        for i, t in enumerate(spec):
            if t['resource'] not in resmap:
                viol('C03', f"resource-missing-from-result/{case['dir']}", f'resource {t["resource"]!r} named by task {t["id"]} not in Schedule.resources')
            elif case['resources'].get(rname(t['resource']), 'missing') == 'missing':
                acc.count('default_resource_tasks')
                robj = resmap[t['resource']]
                wk = [robj.get_available_units(REAL(2026, 3, 2) + td(days=k)) for k in range(7)]
                if wk != [8, 8, 8, 8, 8, 0, 0]:
                    viol('C03', 'default-resource-not-mon-fri-8', f'default resource {t["resource"]!r} week = {wk}')

    if dusty and prop not in ('C03', 'C06', 'C07'):
        _report(prop, V, case, acc)
        return

    # ---------------------------------------------------------------- per-leaf: C04, C02, C08, C09
    early = reached_before_parent(case, c, case['dir']) if prop in ('C02', 'C09') else set()
    usage = collections.defaultdict(float)
    for r in rows:
        usage[(r.resource.name, r.date)] += r.units
    first_ev_pos = {}
    for pos, e in enumerate(b.shared['events']):
        tid = e[3]
        if tid is not None and tid not in first_ev_pos:
            first_ev_pos[tid] = pos

    def booked_before(resname, d, tid, inclusive_task_day=None):
        """units reserved on (resname, d) by events strictly before the task's first event (query or reservation)"""
        pos = first_ev_pos.get(tid)
        if pos is None:
            return None
        tot = 0.0
        for e in b.shared['events'][:pos]:
            if e[0] == 'r' and e[1] == resname and day(e[2]) == d:
                tot += e[4]
        return tot

    def booked_upto(resname, d, tid):
        """units reserved on (resname, d) by events up to and including the task's own reservation on that day"""
        tot = 0.0
        seen = False
        for e in b.shared['events']:
            if e[0] != 'r':
                continue
            if e[1] == resname and day(e[2]) == d:
                tot += e[4]
                if e[3] == tid:
                    seen = True
                    break
        return tot if seen else None

    for i in c.leaves:
        t = spec[i]
        rt = T[i]
        myrows = by_task.get(rt.id, [])
        days = [r.date for r in myrows]
        nd_rows = [r for r in myrows if r.units > tol(1)]      # non-dust
        nd_days = [r.date for r in nd_rows]
        is_probe = case['resources'].get(rname(t['resource']), 'missing') != 'missing'
        resn = t['resource']
        completed = fwd and t['end'] is not None
        est = t['estimate'] if t['estimate'] is not None else case['default_estimate']
        work = max(est - (t['spent'] or 0), 0)
        fixed_start = fwd and t['start'] is not None

        # ---------------- C04
        if prop == 'C04':
            acc.ev()
        if t['milestone'] or completed:
            if myrows:
                viol('C04', ('milestone' if t['milestone'] else 'completed') + f"-reserves/{case['dir']}", f'task {rt.id} has {len(myrows)} usage rows')
        else:
            tot = sum(r.units for r in myrows)
            if abs(tot - work) > tol(work) * 10:
                viol('C04', f"conservation/{case['dir']}", f'task {rt.id}: reserved {tot}, remaining work max({est}-{t["spent"] or 0},0) = {work}')
            if len(set(days)) != len(days):
                viol('C04', f"two-rows-one-day/{case['dir']}", f'task {rt.id} rows on {sorted(days)}')
            for r in nd_rows:
                if r.date < day(rt.start):
                    viol('C04', f"row-before-start-day/{case['dir']}/{'balance' if bal else 'per-task'}", f'task {rt.id} start {rt.start}, row on {r.date}')
                if not (r.date < rt.end):
                    viol('C04', f"row-not-before-end/{case['dir']}", f'task {rt.id} end {rt.end}, row on {r.date}')
                if fwd and r.date < day(now):
                    viol('C04', 'row-before-clock-day', f'task {rt.id} row on {r.date}, clock {now}')
            if nd_days:
                first, last = min(nd_days), max(nd_days)
                if fwd:
                    if not fixed_start and day(rt.start) != first:
                        viol('C04', 'start-not-on-first-reserved-day/fwd', f'task {rt.id} start {rt.start}, first reserved day {first}')
                    if not (last < rt.end <= last + td(days=1) + MS):
                        viol('C04', 'end-not-within-24h-after-last-reserved-day/fwd', f'task {rt.id} end {rt.end}, last reserved day {last}')
                elif t['start'] is None:
                    # (a start the user typed before a backward run is kept when it is the earlier one; the clause speaks
                    # about the start the run assigns)
                    if not (first - MS <= rt.start < first + td(days=1)):
                        viol('C04', f"start-not-within-first-reserved-day/bwd/{'balance' if bal else 'per-task'}", f'task {rt.id} start {rt.start}, first reserved day {first}')
            if prop == 'C04' and work > 0:
                acc.count('leaves_with_work')
                partial = bool(nd_days) and usage[(resn, min(nd_days))] > sum(r.units for r in nd_rows if r.date == min(nd_days)) + tol(1)
                if partial:
                    acc.count('leaves_starting_on_partially_booked_day')
                if nd_days and (max(nd_days) - min(nd_days)).days >= 14:
                    acc.count('leaves_spanning_two_weeks')
                if t['estimate'] is None:
                    acc.count('default_estimate_leaves')
                if (t['spent'] or 0) > est:
                    acc.count('spent_gt_estimate')
                acc.sig(min(len(nd_days), 12), partial, t['estimate'] is None, fixed_start, case['dir'], bal, (t['spent'] or 0) > 0)
        if fwd and not t['milestone']:
            if t['start'] is not None and rt.start != t['start']:
                viol('C04', 'user-fixed-start-changed', f'task {rt.id} fixed start {t["start"]} returned as {rt.start}')
            if t['end'] is not None and rt.end != t['end']:
                viol('C04', 'user-fixed-end-changed', f'task {rt.id} fixed end {t["end"]} returned as {rt.end}')
            if prop == 'C04' and (t['start'] is not None or t['end'] is not None):
                acc.count('fixed_date_leaves')

        # ---------------- C02 (forward)
        if fwd:
            own, inh, ext = eff_pred_leaves(case, c, i)
            pends = [(T[p].end, f'task {spec[p]["id"]}') for p in own + inh] + [(e['end'], f'external {e["id"]}') for e in ext]
            if prop == 'C02':
                acc.ev()
                if inh or any(True for a in c.anc[i] if c.extpred[a]):
                    acc.count('leaves_with_inherited_prereq')
                    if i in early or any(a in early for a in c.anc[i]):
                        acc.count('reached_before_parent')
                if pends:
                    acc.sig(min(len(own), 3), min(len(inh), 3), i in early, t['milestone'], conf_class(case), len(c.anc[i]), fixed_start)
            if t['milestone']:
                lat = max([p[0] for p in pends], default=None)
                if prop == 'C02':
                    acc.count('milestones_checked')
                    if inh:
                        acc.count('milestones_with_inherited_prereq')
                if lat is None:
                    exp = case['date']
                elif lat >= case['date']:
                    exp = lat
                else:
                    exp = None   # statement ambiguous: latest prerequisite end precedes the project start
                    acc.count('milestone_prereq_before_project_start')
                if rt.start != rt.end:
                    viol('C02', 'milestone-has-duration', f'milestone {rt.id}: {rt.start} .. {rt.end}')
                elif exp is not None and rt.start != exp:
                    viol('C02', 'milestone-placement' + ('/inherited' if inh and lat == max([T[p].end for p in inh], default=None) and (not own or lat > max(T[p].end for p in own)) else ''),
                         f'milestone {rt.id} at {rt.start}, latest prerequisite end / project start = {exp}')
            elif not fixed_start and not completed:
                bounds = [(day(case['date']), 'project-start', 'project start'), (day(now), 'clock', 'clock')]
                for p in own:
                    bounds.append((day(T[p].end), 'own-prerequisite', f'end of task {spec[p]["id"]}'))
                for p in inh:
                    bounds.append((day(T[p].end), 'inherited-prerequisite', f'end of task {spec[p]["id"]} (inherited)'))
                for e in ext:
                    bounds.append((day(e['end']), 'external-prerequisite', f'end of external {e["id"]}'))
                if t['min_start'] is not None:
                    bounds.append((day(t['min_start']), 'min_start', 'min_start'))
                for bd, tag, why in bounds:
                    if day(rt.start) < bd:
                        viol('C02', f'start-before-{tag}', f'task {rt.id} starts {rt.start}, before {why} ({bd})')
                    for r in nd_rows:
                        if r.date < bd:
                            viol('C02', f'work-before-{tag}', f'task {rt.id} has work on {r.date}, before {why} ({bd})')
                            break

        # ---------------- C08 (forward, tightness/encoding)
        if fwd and prop == 'C08' and not t['milestone'] and not fixed_start and not completed:
            own, inh, ext = eff_pred_leaves(case, c, i)
            pends = [T[p].end for p in own + inh] + [e['end'] for e in ext]
            release = max([case['date'], now] + ([t['min_start']] if t['min_start'] else []) + pends)
            lastday = max(nd_days) if nd_days else day(rt.start)
            if work == 0 and nd_days:
                # "its start day when it has no work": a leaf without remaining work has no work day at all
                viol('C08', 'work-days-for-a-task-without-work', f'task {rt.id} has no remaining work (estimate {est}, spent {t["spent"] or 0}) but work is booked on {sorted(nd_days)[:3]}')
            if bal:
                acc.ev()
                acc.count('tight_leaves')
                d = day(release)
                gap = False
                while d < lastday:
                    cp = capd(resn, d)
                    if cp <= 0:
                        gap = True
                    if cp > 0 and usage[(resn, d)] < cp - tol(cp):
                        viol('C08', 'idle-day-before-last-work-day', f'task {rt.id} released {release}, last work day {lastday}, but {resn} has {cp - usage[(resn, d)]} free on {d}')
                        break
                    d += td(days=1)
                fixed_starts = [x['start'] for k, x in enumerate(spec) if x['start'] is not None and not c.ch[k]]
                d5 = now <= day(case['date']) and all(now <= f for f in fixed_starts)
                partial = False
                if d5 and nd_days and is_probe:
                    first = min(nd_days)
                    bb = booked_before(resn, first, rt.id)
                    bu = booked_upto(resn, lastday, rt.id)
                    if bb is not None and bu is not None:
                        acc.count('encoding_checked')
                        partial = bb > tol(1)
                        exp_s = first + td(hours=24 * (bb / capd(resn, first)))
                        exp_e = lastday + td(hours=24 * (bu / capd(resn, lastday)))
                        if abs(rt.start - exp_s) > MS:
                            viol('C08', 'start-encoding', f'task {rt.id} start {rt.start}, expected {exp_s} ({bb} of {capd(resn, first)} booked before it on {first})')
                        if abs(rt.end - exp_e) > MS:
                            viol('C08', 'end-encoding', f'task {rt.id} end {rt.end}, expected {exp_e} ({bu} of {capd(resn, lastday)} booked up to it on {lastday})')
                elif d5 and not nd_days and is_probe:
                    acc.count('zero_work_leaves_seen')      # no work day: the encoding clause does not apply
                if partial or gap:
                    acc.sig(partial, gap, min(len(nd_days), 10), calast.shape(case['resources'][rname(resn)]) if is_probe else 'default')
                if partial:
                    acc.count('leaves_starting_on_partially_booked_day')
                if gap:
                    acc.count('leaves_crossing_calendar_gap')

        # ---------------- C09 (backward)
        if not fwd:
            if rt.end > case['date']:
                viol('C09', 'ends-after-project-end', f'task {rt.id} ends {rt.end}, project end {case["date"]}')
            own_s, inh_s = eff_succ_tasks(case, c, i)
            ext_s = [e for x in [i] + c.anc[i] for e in c.extsucc[x]]
            for e in ext_s:
                if prop == 'C09':
                    acc.count('deps_checked')
                    acc.count('deps_on_outside_successors')
                if rt.end > e['start']:
                    viol('C09', 'dependency-violated/outside-successor', f'task {rt.id} ends {rt.end} after its successor outside the WBS ({e["id"]}) starts {e["start"]}')
            if prop == 'C09':
                acc.ev()
            for k in own_s + inh_s:
                if prop == 'C09':
                    acc.count('deps_checked')
                    if k in inh_s:
                        acc.count('inherited_deps_checked')
                        if i in early or any(a in early for a in c.anc[i]):
                            acc.count('reached_before_parent')
                if rt.end > T[k].start:
                    viol('C09', 'dependency-violated' + ('/inherited' if k in inh_s and k not in own_s else ''),
                         f'task {rt.id} ends {rt.end} after its successor {spec[k]["id"]} starts {T[k].start}')
            if prop == 'C09' and bal and not t['milestone']:
                due = min([T[k].start for k in own_s + inh_s] + [e['start'] for e in ext_s] + [case['date']])
                acc.count('late_pack_checked')
                d = day(rt.end) + td(days=1)
                partial = False
                while d + td(days=1) <= due:
                    cp = capd(resn, d)
                    if cp > 0 and usage[(resn, d)] < cp - tol(cp):
                        viol('C09', 'not-late-packed', f'task {rt.id} ends {rt.end}, due {due}, but {resn} has {cp - usage[(resn, d)]} free on {d}')
                        break
                    d += td(days=1)
                if nd_days:
                    d = min(nd_days) + td(days=1)
                    while d < max(nd_days):
                        cp = capd(resn, d)
                        if cp > 0 and usage[(resn, d)] < cp - tol(cp):
                            viol('C09', 'gap-inside-task', f'task {rt.id} works {min(nd_days)}..{max(nd_days)} but {resn} has free capacity on {d}')
                            break
                        d += td(days=1)
                if is_probe and nd_days:
                    first = min(nd_days)
                    bu = booked_upto(resn, first, rt.id)
                    if bu is not None:
                        acc.count('encoding_checked')
                        exp_s = first + td(days=1) - td(hours=24 * (bu / capd(resn, first)))
                        if abs(rt.start - exp_s) > MS:
                            viol('C09', 'start-encoding', f'task {rt.id} start {rt.start}, expected {exp_s} ({bu} of {capd(resn, first)} booked up to it on {first})')
                if is_probe and (nd_days or t['end'] is None):
                    # (a leaf without remaining work has an end day too: the latest day before its due date with spare capacity)
                    e_ = rt.end
                    dE = day(e_) if e_ != day(e_) else day(e_) - td(days=1)
                    bb = booked_before(resn, dE, rt.id)
                    cpE = capd(resn, dE)
                    if not nd_days and not cpE > 0:
                        acc.count('end_encoding_checked_zero_work')
                        viol('C09', 'end-encoding/zero-work/day-without-capacity', f'task {rt.id} (no remaining work) ends {e_}: the day it belongs to, {dE}, offers no capacity on {resn}')
                    if bb is not None and cpE > 0:
                        exp_e = dE + td(days=1) - td(hours=24 * (bb / cpE))
                        partial = bb > tol(1)
                        if not nd_days:
                            acc.count('end_encoding_checked_zero_work')
                        if abs(e_ - exp_e) > MS:
                            viol('C09', 'end-encoding' + ('' if nd_days else '/zero-work'), f'task {rt.id} end {e_}, expected {exp_e} ({bb} of {cpE} booked on {dE} before it was placed)')
                if own_s or inh_s or partial:
                    acc.sig(min(len(own_s), 3), min(len(inh_s), 3), partial, min(len(nd_days), 10), i in early)

    # C09 clauses that speak about every task, summaries included
    if not fwd:
        for i in range(c.n):
            if c.ch[i]:
                if prop == 'C09':
                    acc.ev()
                if T[i].end > case['date']:
                    viol('C09', 'summary-ends-after-project-end', f'summary {T[i].id} ends {T[i].end}, project end {case["date"]}')
        for s_, p_ in case['links']:
            if c.ch[s_] or c.ch[p_]:
                if prop == 'C09':
                    acc.count('deps_checked')
                if T[p_].end > T[s_].start:
                    viol('C09', 'dependency-violated/summary', f'task {T[p_].id} ends {T[p_].end} after its successor {T[s_].id} starts {T[s_].start}')

    # summaries reserve nothing
    for i in range(c.n):
        if c.ch[i] and by_task.get(T[i].id):
            viol('C04', f"summary-reserves/{case['dir']}", f'summary {T[i].id} has usage rows')

    # ---------------------------------------------------------------- C08 order + removal pairs
    if fwd and prop == 'C08':
        free = [i for i in c.order if not c.ch[i] and not spec[i]['milestone']
                and not c.preds[i] and not c.succs[i] and not c.extpred[i]
                and all(not c.preds[a] and not c.succs[a] and not c.extpred[a] for a in c.anc[i])]
        # order in which capacity was handed out = order of the reserve events at the IResource hook (chronological
        # truth); tasks on default resources have no hook and are skipped (the order of report rows is not specified)
        pos = {}
        for p_, e in enumerate(events):
            pos.setdefault(e[3], []).append(p_)
        prev = None
        for i in free:
            tid = spec[i]['id']
            if tid not in pos:
                continue
            if prev is not None:
                acc.ev()
                acc.count('order_pairs')
                if max(pos[prev]) > min(pos[tid]):
                    viol('C08', 'capacity-not-in-wbs-order', f'dependency-free leaves {prev} then {tid} in WBS order, but {tid} was served before {prev} finished booking')
            prev = tid
        if not bal:
            _removal_pair(case, c, T, acc, viol)

    _report(prop, V, case, acc)


def _removal_pair(case, c, T, acc, viol):
    """balancing off: removing a tree that is not connected (links or hierarchy) to the rest leaves the other dates unchanged"""
    n = c.n
    comp = list(range(n))

    def find(x):
        while comp[x] != x:
            comp[x] = comp[comp[x]]
            x = comp[x]
        return x
    for i, t in enumerate(case['tasks']):
        if t['parent'] is not None:
            comp[find(i)] = find(t['parent'])
    for a, b_ in case['links']:
        comp[find(a)] = find(b_)
    for e in case.get('externals') or []:
        for k in e['succ'][1:]:
            comp[find(k)] = find(e['succ'][0])
    groups = collections.defaultdict(list)
    for i in range(n):
        groups[find(i)].append(i)
    if len(groups) < 2:
        return
    victim = sorted(groups)[case['tasks'][0]['id'] % len(groups)]
    keep = [i for i in range(n) if find(i) != victim]
    remap = {old: new for new, old in enumerate(keep)}
    alt = dict(case)
    alt['tasks'] = []
    for old in keep:
        t = dict(case['tasks'][old])
        t['parent'] = remap[t['parent']] if t['parent'] is not None else None
        alt['tasks'].append(t)
    alt['links'] = [[remap[a], remap[b_]] for a, b_ in case['links'] if a in remap and b_ in remap]
    alt['externals'] = []
    for e in case.get('externals') or []:
        ss = [remap[k] for k in e['succ'] if k in remap]
        if ss:
            e2 = dict(e)
            e2['succ'] = ss
            alt['externals'].append(e2)
    b2 = sched.build(alt)
    _, res2, o2, _ = run_calc(alt, b2)
    acc.ev()
    acc.count('removal_pairs')
    if o2 != 'ok':
        viol('C08', 'removal-changes-outcome', f'after removing an unrelated tree calc gives {o2}')
        return
    d2 = {t.id: (t.start, t.end) for t in res2.schedule.tasks}
    for old in keep:
        tid = case['tasks'][old]['id']
        if d2.get(tid) != (T[old].start, T[old].end):
            viol('C08', 'dates-change-when-unrelated-task-removed', f'task {tid}: {T[old].start}..{T[old].end} becomes {d2.get(tid)} after removing an unrelated tree (balancing off)')
            return


def _c14_mech(case, exc):
    """mechanism suffix for the recorded finding F-K5: the ZeroDivisionError is raised inside a calendar's
    get_available_units (call site), and a resource calendar of the case contains a calendar/calendar division"""
    if isinstance(exc, ZeroDivisionError):
        def has_div(ast):
            return isinstance(ast, list) and len(ast) > 0 and (ast[0] == 'div' or any(has_div(x) for x in ast[1:] if isinstance(x, list)))
        tb = exc.__traceback__
        last = None
        while tb is not None:
            last = tb.tb_frame
            tb = tb.tb_next
        # (the innermost frame is calendar code, whatever the function is called there)
        in_calendar = last is not None and last.f_code.co_filename.replace('\\', '/').endswith('pjplan/calendar.py')
        if in_calendar and any(a != 'missing' and has_div(a) for a in case['resources'].values()):
            return '/calendar-divisor-zero'
    return ''


def _first_diff(a, b):
    for x, y in zip(a, b):
        if x != y:
            return f'{x!r} -> {y!r}'[:300]
    return f'lengths {len(a)} -> {len(b)}'


def _sigdiff(base, res):
    if res is None:
        return 'no result'
    s2 = sig_of(res)
    if s2[0] != base[0]:
        return 'dates: ' + _first_diff(base[0], s2[0])
    return 'rows: ' + _first_diff(base[1], s2[1])


def _shape(case, c):
    return (c.n, len(case['links']), max((len(a) for a in c.anc.values()), default=0), len(case['resources']))


def _materialise(case):
    return case


def _report(prop, V, case, acc):
    seen = set()
    for p, key, msg in V:
        if p != prop or key in seen:
            continue
        seen.add(key)
        acc.violation(key, msg, case)


# ------------------------------------------------------------------------------------------
# C14 extra classes
# ------------------------------------------------------------------------------------------
def gen_phase_chain(rnd):
    """a plan as people draw it: phases (summary tasks) one after the other, each waiting for the previous one -- through a
    link between the phases, through links from its tasks, or through a link to the previous phase's last task"""
    direction = rnd.choice(['fwd', 'bwd'])
    k, m = rnd.choice([(9, 3), (10, 3), (11, 3), (12, 3), (11, 2), (12, 2), (13, 2)])
    base = REAL(2026, 1, 5) if direction == 'fwd' else REAL(2027, 6, 4)
    tasks, links = [], []
    prev = None
    for p_ in range(k):
        ph = len(tasks)
        tasks.append({'id': ph + 1, 'name': f'phase{p_}', 'parent': None, 'estimate': None, 'spent': None, 'resource': None, 'milestone': False,
                      'min_start': None, 'start': None, 'end': None, 'attrs': {}})
        kids = []
        for _ in range(m):
            kids.append(len(tasks))
            tasks.append(dict(tasks[ph], id=len(tasks) + 1, name=f'work{len(tasks)}', parent=ph, estimate=rnd.choice([1, 2, 4, 8]),
                              resource=rnd.choice([None, 'A'])))
        if prev is not None:
            how = rnd.choice(['phase', 'phase', 'phase', 'tasks', 'last-task'])
            if how == 'phase':
                links.append([ph, prev[0]])
            elif how == 'tasks':
                links += [[c_, prev[0]] for c_ in kids]
            else:
                links.append([ph, prev[1][-1]])
        prev = (ph, kids)
    return {'kind': 'sched', 'tasks': tasks, 'links': links, 'externals': [], 'resources': {'<none>': 'missing', 'A': 'missing'}, 'dir': direction,
            'date': base, 'now': REAL(2020, 1, 1), 'balance': rnd.random() < 0.7, 'default_estimate': 0, 'class': 'wellformed',
            'decimal': False, 'step_budget': True}


def gen_overtime(rnd):
    """a crew working Mon-Fri whose resource object grants some tasks extra units on any day (overtime at weekends): full
    days of regular work in front, so that the overtime task meets a fully booked day followed by a day the calendar leaves empty"""
    direction = rnd.choice(['fwd', 'fwd', 'bwd'])
    base = REAL(2026, 1, 5) + td(days=rnd.randint(0, 6))
    if direction == 'bwd':
        base = base + td(days=28)
    n = rnd.randint(2, 5)
    tasks = []
    for i in range(n):
        tasks.append({'id': i + 1, 'name': f't{i + 1}', 'parent': None, 'estimate': rnd.choice([8, 8, 16, 24, 40]), 'spent': None, 'resource': 'A',
                      'milestone': False, 'min_start': None, 'start': None, 'end': None, 'attrs': {}})
    caps = {}
    for t in rnd.sample(tasks, rnd.randint(1, 2)):
        t['estimate'] = rnd.choice([2, 4, 6])
        caps[str(t['id'])] = rnd.choice([[1, 4], [0, 4], [1, 2]])
    links = [[i, i - 1] for i in range(1, n) if rnd.random() < 0.3]
    return {'kind': 'sched', 'tasks': tasks, 'links': links, 'externals': [], 'resources': {'A': ['weekly', {'days': [0, 1, 2, 3, 4], 'units': 8}]},
            'dir': direction, 'date': base, 'now': REAL(2020, 1, 1), 'balance': True, 'default_estimate': 0, 'class': 'any', 'decimal': False,
            'task_caps': caps}


def gen_c14_case(rnd):
    k = rnd.random()
    if k > 0.985:
        return gen_phase_chain(rnd)
    if k > 0.955:
        return gen_overtime(rnd)
    direction = rnd.choice(['fwd', 'bwd'])
    if k < 0.35:
        case = sched.gen_case(rnd, direction, klass='any')
        # hostile additions outside D1-D3
        for i, t in enumerate(case['tasks']):
            if rnd.random() < 0.1:
                t['milestone'] = True
            if rnd.random() < 0.1:
                t['name'] = None
        for nm in list(case['resources']):
            r = rnd.random()
            if r < 0.15:
                b0 = case['date']
                case['resources'][nm] = ['weekly', {'days': [0, 1, 2, 3, 4], 'units': 8, 'start': b0 - td(days=3, hours=5), 'end': b0 + td(days=40, hours=13)}]
            elif r < 0.25:
                case['resources'][nm] = ['div', ['weekly', {'days': [0, 1, 2, 3, 4], 'units': 8}], ['num', rnd.choice([2, 0.5])]]
            elif r < 0.32:
                case['resources'][nm] = ['div', ['weekly', {'days': [0, 1, 2, 3, 4, 5, 6], 'units': 8}], ['weekly', {'days': [0, 1, 2, 3, 4], 'units': 2}]]
            elif r < 0.55:
                # arbitrary calendar expression (the C17 generator): bounded operands, days without information on every
                # operand, zero capacities, time-of-day bounds -- calc must still answer with a schedule or a RuntimeError
                from vf import mon_cal
                ast = mon_cal.gen_ast(rnd, rnd.choice([1, 2, 3]))
                if ast[0] != 'num':
                    case['resources'][nm] = ast
        if case['dir'] == 'bwd' and rnd.random() < 0.4:
            # tasks outside the WBS that wait for members need not be planned yet: no start, no end
            for e in case.get('externals') or []:
                if e.get('succ_of'):
                    e['start'] = None
                    if rnd.random() < 0.5:
                        e['end'] = None
        if rnd.random() < 0.35 and case['tasks']:
            # a resource whose answer depends on the task it is asked for (second argument of the extension point): a share
            # of the day for some tasks, extra units -- also on days the calendar leaves empty -- for others
            picks = rnd.sample(case['tasks'], rnd.randint(1, min(3, len(case['tasks']))))
            case['task_caps'] = {str(t['id']): rnd.choice([0.5, 0.25, [1, 2], [0, 4], [0.5, 1], 0, [1, 2], [0, 4]]) for t in picks}
            if rnd.random() < 0.7:
                for t in case['tasks']:
                    t['resource'] = case['tasks'][0]['resource']
                case['balance'] = True
        return case
    if k < 0.6:
        # cycle that closes through the hierarchy
        case = sched.gen_case(rnd, direction, n_max=8, klass='any', fixed=False, externals=False)
        n = len(case['tasks'])
        base_n = n
        S = {'id': n + 1, 'name': 'S', 'parent': None, 'estimate': None, 'spent': None, 'resource': None, 'milestone': False,
             'min_start': None, 'start': None, 'end': None, 'attrs': {}}
        L = dict(S, id=n + 2, name='L', parent=base_n, estimate=rnd.choice([1, 8]))
        X = dict(S, id=n + 3, name='X', estimate=rnd.choice([0, 2]))
        case['tasks'] += [S, L, X]
        variant = rnd.randrange(3)
        if variant == 0:      # L waits for X, X waits for S (= for L)
            case['links'] += [[base_n + 1, base_n + 2], [base_n + 2, base_n]]
        elif variant == 1:    # S waits for X (inherited by L), X waits for L
            case['links'] += [[base_n, base_n + 2], [base_n + 2, base_n + 1]]
        else:                 # two summaries waiting for each other's children
            S2 = dict(S, id=n + 4, name='S2')
            L2 = dict(S, id=n + 5, name='L2', parent=base_n + 3, estimate=2)
            case['tasks'] += [S2, L2]
            case['links'] += [[base_n, base_n + 4], [base_n + 3, base_n + 1]]
        if rnd.random() < 0.5:
            # move the new block to the front so that traversal order varies
            pass
        case['class'] = 'unschedulable'
        return case
    if k < 0.72:
        case = sched.gen_case(rnd, 'fwd', n_max=6, klass='wellformed', externals=False)
        n = len(case['tasks'])
        # the outside task is another object whatever its id: half of the time it carries the id of a member
        case['externals'] = [{'id': rnd.choice([100, case['tasks'][rnd.randrange(n)]['id']]), 'start': rnd.choice([None, case['date']]), 'end': None,
                              'succ': [rnd.randrange(n)], 'estimate': None}]
        if rnd.random() < 0.3:
            case['externals'][0]['start'] = None
            case['externals'][0]['end'] = case['date']
        case['dir'] = rnd.choice(['fwd', 'bwd'])
        if case['dir'] == 'bwd':
            for t in case['tasks']:
                t['start'] = t['end'] = t['min_start'] = None
        case['class'] = 'unschedulable'
        return case
    if k < 0.84:
        case = sched.gen_case(rnd, 'fwd', n_max=6, klass='wellformed', fixed=False)
        leaves = [i for i, t in enumerate(case['tasks']) if not any(x['parent'] == i for x in case['tasks']) and not t['milestone']]
        if leaves:
            i = rnd.choice(leaves)
            case['tasks'][i]['start'] = case['now'] - td(days=2)
            case['tasks'][i]['end'] = case['now'] + td(days=rnd.randint(0, 30), seconds=1)
        case['class'] = 'unschedulable'
        return case
    # resource that never becomes available / not enough capacity
    case = sched.gen_case(rnd, direction, n_max=5, klass='wellformed', fixed=False, externals=False)
    names = list(case['resources'])
    nm = rnd.choice(names)
    if rnd.random() < 0.6:
        case['resources'][nm] = ['never', rnd.choice(['weekly-empty', 'fixed-zero', 'direct-empty'])]
    else:
        b0 = day(case['date'])
        case['resources'][nm] = ['direct', [[b0 + td(days=rnd.randint(-30, 30)), rnd.choice([0, 1, 2])] for _ in range(rnd.randint(0, 4))]]
        case['finite_capacity'] = nm
    for t in case['tasks']:
        if rname(t['resource']) == nm and t['estimate'] in (None, 0):
            t['estimate'] = rnd.choice([3, 40])
            t['spent'] = None
    case['class'] = 'unschedulable'
    return case


# ------------------------------------------------------------------------------------------
# entry points
# ------------------------------------------------------------------------------------------
FWD_ONLY = ('C02', 'C08')
BWD_ONLY = ('C09',)
# properties that speak about every backward schedule, dates typed on leaves included (C09 quantifies over WBSs without
# user-fixed dates, so its workload keeps backward inputs free of them)
BWD_FIXED = ('C07', 'C03', 'C06', 'C04')
TASK_CAPPED = ('C07', 'C06', 'C04', 'C02')


def run_shard(prop, tier, seed, shard, nshards, budget, acc):
    idx = 0
    n_max = 14 if tier == 'thorough' else 12
    if prop in ('C02', 'C08', 'C06', 'C07', 'C03', 'C04'):
        _known_answer_anchor(acc)
    _exhaustive_layer(prop, tier, shard, nshards, acc, budget)
    while budget.more():
        rnd = core.case_rng(seed, shard, idx, 'sched')
        idx += 1
        if prop == 'C14':
            case = gen_c14_case(rnd)
        else:
            direction = 'fwd' if prop in FWD_ONLY else 'bwd' if prop in BWD_ONLY else None
            case = sched.gen_case(rnd, direction, n_max=n_max, bwd_fixed=prop in BWD_FIXED)
            if prop in TASK_CAPPED and not case['decimal'] and rnd.random() < 0.12:
                # resources that offer some tasks only a share of the day (IResource.get_available_units(date, task)); only the
                # checks whose clauses do not speak about "the" capacity of a day ask for this class
                lv = [t for i, t in enumerate(case['tasks']) if not any(x['parent'] == i for x in case['tasks']) and not t['milestone']]
                if lv:
                    case['task_caps'] = {str(t['id']): rnd.choice([0.5, 0.25, 0.5, 0.125]) for t in rnd.sample(lv, rnd.randint(1, min(3, len(lv))))}
                    if rnd.random() < 0.6:
                        for t in case['tasks']:
                            t['resource'] = case['tasks'][0]['resource']
            if rnd.random() < 0.25:
                case['built_at'] = REAL(2019, 6, 1, 9, 30)
            case['warm'] = rnd.random() < 0.3
            if case['warm'] and rnd.random() < 0.3:
                case['warm'] = 'edited-calendar'
            case['alias_probe'] = rnd.random() < 0.1
            if prop == 'C08' and rnd.random() < 0.7:
                case['balance'] = True
            if prop == 'C09' and rnd.random() < 0.8:
                case['balance'] = True
        acc.cases += 1
        configs = [case]
        if tier == 'thorough' and prop != 'C14':
            configs = []
            for bal in (True, False):
                for now in ([case['now'], REAL(2020, 1, 1), case['date'] + td(days=2, hours=11)] if case['dir'] == 'fwd' else [case['now']]):
                    c2 = copy.deepcopy(case)
                    c2['balance'] = bal
                    c2['now'] = now
                    configs.append(c2)
        for cs in configs:
            try:
                judge(prop, cs, acc)
            except Exception:
                # an oracle that cannot digest a result must not hide the verdicts of the other cases
                import traceback
                acc.count('oracle_exceptions')
                if acc.counters['oracle_exceptions'] <= 2:
                    acc.inconclusive.append('oracle raised on a case: ' + traceback.format_exc()[-700:])
        if idx <= 2:
            acc.sample(_brief(case))


def _exhaustive_layer(prop, tier, shard, nshards, acc, budget=None):
    """small-scope layer (vf/exh_sched.py): every forest x every link set up to the scope, walked by this shard's share"""
    from vf import exh_sched
    dirs = ['fwd'] if prop in FWD_ONLY else ['bwd'] if prop in BWD_ONLY else ['fwd', 'bwd']
    n_max, max_links = (5, 3) if tier == 'thorough' else (4, 4)
    for direction in dirs:
        for i, (n, parents, links) in enumerate(exh_sched.cases(direction, n_max, max_links)):
            if i % nshards != shard:
                continue
            if budget is not None and budget.overdue():
                acc.count('exhaustive_layer_truncated')
                # on a loaded machine the enumeration may not fit; the random workload (with its floor of cases) still decides,
                # and the evidence says that the enumeration was cut short
                acc.notes.append('exhaustive small-scope layer cut short (three times the shard budget used up)')
                return
            nows = ['early', 'same' if i % 2 else 'late'] if direction == 'fwd' else ['early']
            for bal in (True, False):
                for nk in nows:
                    case = exh_sched.make(direction, n, parents, links, i // nshards, bal, nk)
                    if case['class'] != 'wellformed' and prop != 'C14':
                        continue
                    acc.cases += 1
                    acc.count('exhaustive_small_scope_cases')
                    try:
                        judge(prop, case, acc)
                    except Exception:
                        import traceback
                        acc.count('oracle_exceptions')
                        if acc.counters['oracle_exceptions'] <= 2:
                            acc.inconclusive.append('oracle raised on a case: ' + traceback.format_exc()[-700:])


def _brief(case):
    return {'dir': case['dir'], 'date': case['date'], 'now': case['now'], 'balance': case['balance'],
            'default_estimate': case['default_estimate'], 'class': case.get('class'),
            'tasks': [{k: v for k, v in t.items() if v not in (None, False, {}) or k == 'parent'} for t in case['tasks']],
            'links [succ_idx, pred_idx]': case['links'], 'resources': case['resources'], 'externals': case.get('externals')}


def _known_answer_anchor(acc):
    """sanity anchor for the clock hook: the repository's own forward-scheduler expectations (test_calc_2)
    hold under a clock frozen before the project start."""
    from pjplan import Task, WBS, ForwardScheduler
    set_now(REAL(2025, 12, 1))
    c0 = Clock.calls
    w = WBS()
    a = w // Task(1, 'a', estimate=8)
    w // Task(2, 'b', estimate=8, predecessors=[a])
    r = ForwardScheduler(start=REAL(2026, 1, 5)).calc(w).schedule
    ok = (r[1].start, r[1].end, r[2].start, r[2].end) == (REAL(2026, 1, 5), REAL(2026, 1, 6), REAL(2026, 1, 6), REAL(2026, 1, 7))
    if not ok or Clock.calls == c0:
        acc.inconclusive.append(f'clock anchor failed: dates {(r[1].start, r[1].end, r[2].start, r[2].end)}, clock reads {Clock.calls - c0}')
    acc.count('clock_anchor_ok' if ok else 'clock_anchor_failed')


def run_case(prop, case, acc):
    judge(prop, case, acc)
    acc.cases += 1
