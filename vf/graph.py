"""W-HIST infrastructure: closed universe of Task/WBS objects, public-API snapshots, the
invariant walker (C01/C05/C11), the outcome-following reference model (C15/C16), and the executor
that turns a JSON-able call descriptor into the real call.

Everything here observes pjplan through its public getters only (DESIGN 2.5).
"""
import copy

import vf.env  # noqa: F401
from pjplan import Task, WBS


# ------------------------------------------------------------------------------------------
# universe
# ------------------------------------------------------------------------------------------
class Universe:
    def __init__(self, spec):
        """spec: {'tasks': [{'id':..., 'name':..., ...attrs}], 'wbs': n | [ {attrs} ]}"""
        self.spec = copy.deepcopy(spec)
        self.tasks = []
        self.lab = {}
        self.obj = {}
        self.wbss = []
        self.wlab = {}
        self.wobj = {}
        self.stale = {}
        for ts in spec['tasks']:
            kw = dict(ts)
            i = kw.pop('id')
            self.add_task(Task(i, **kw))
        ws = spec['wbs']
        if isinstance(ws, int):
            ws = [{} for _ in range(ws)]
        for kw in ws:
            self.add_wbs(WBS(**kw))

    def add_task(self, t):
        lab = f't{len(self.tasks)}'
        self.tasks.append(t)
        self.lab[id(t)] = lab
        self.obj[lab] = t
        return lab

    def add_wbs(self, w):
        lab = f'w{len(self.wbss)}'
        self.wbss.append(w)
        self.wlab[id(w)] = lab
        self.wobj[lab] = w
        return lab

    def L(self, t):
        if t is None:
            return None
        return self.lab.get(id(t), '?' + type(t).__name__)

    def WL(self, w):
        if w is None:
            return None
        return self.wlab.get(id(w), '?wbs')

    def T(self, lab):
        if lab == '#junk':
            return 5          # something that is not a task (a task id instead of the task, typically)
        return None if lab is None else self.obj[lab]

    def TS(self, labs):
        return [self.T(x) for x in labs]


TASK_FIELDS = ('id', 'name', 'resource', 'start', 'end', 'milestone', 'min_start', 'estimate', 'spent')
_ABSENT = object()


def public_fields(t, extra=()):
    """documented fields of a task plus the custom attributes the workloads set, read with getattr (what to_dict() or
    vars() additionally contain -- derived keys, book-keeping attributes -- is an implementation's own business)"""
    out = []
    for k in TASK_FIELDS + tuple(extra):
        v = getattr(t, k, _ABSENT)
        if v is not _ABSENT and not callable(v):
            out.append((k, repr(v)))
    return tuple(out)


CUSTOM_NAMES = ('prio', 'extra', 'title', 'x', 'tag', 'flag', 'note', 'iteration', 'region', 'kpi_', 'team', 'stamp', 'owner',
                'cost center', '2nd reviewer')


def _attrs(o):
    if hasattr(o, 'to_dict'):
        return tuple(sorted(public_fields(o, CUSTOM_NAMES)))
    return tuple(sorted((k, repr(v)) for k, v in o.__dict__.items() if not k.startswith('_') and k in CUSTOM_NAMES))


def snap(u):
    s = {'T': {}, 'R': {}, 'WA': {}}
    for t in u.tasks:
        s['T'][u.L(t)] = {
            'id': t.id,
            'parent': u.L(t.parent),
            'children': [u.L(c) for c in t.children],
            'preds': [u.L(x) for x in t.predecessors],
            'succs': [u.L(x) for x in t.successors],
            'owner': u.WL(t.wbs),
            'attrs': _attrs(t),
        }
    for w in u.wbss:
        s['R'][u.WL(w)] = [u.L(c) for c in w.roots]
        s['WA'][u.WL(w)] = tuple(sorted((k, repr(v)) for k, v in w.__dict__.items() if not k.startswith('_')))
    return s


DOCUMENTED_FIELDS = set(TASK_FIELDS) | set(CUSTOM_NAMES)


def setlevel(s, owner=True):
    """Comparison form for C16: dependency lists at set level; owner optional; attributes restricted to the documented
    fields and the custom attributes the workloads themselves set (book-keeping attributes an implementation may keep
    on a task are not relations)."""
    T = {}
    for k, v in s['T'].items():
        attrs = tuple(a for a in v['attrs'] if a[0] in DOCUMENTED_FIELDS) if isinstance(v['attrs'], tuple) else v['attrs']
        T[k] = (v['parent'], tuple(v['children']), frozenset(v['preds']), frozenset(v['succs']),
                v['owner'] if owner else None, attrs)
    return T, {k: tuple(v) for k, v in s['R'].items()}, dict(s['WA'])


def diff(a, b):
    out = []
    for k in a['T']:
        if k not in b['T']:
            out.append(f'{k}: missing')
            continue
        for f in ('parent', 'children', 'preds', 'succs', 'owner', 'attrs'):
            if a['T'][k][f] != b['T'][k][f]:
                out.append(f"{k}.{f}: {a['T'][k][f]!r} -> {b['T'][k][f]!r}")
    for k in a['R']:
        if a['R'][k] != b['R'].get(k):
            out.append(f"{k}.roots: {a['R'][k]!r} -> {b['R'].get(k)!r}")
        if a['WA'][k] != b['WA'].get(k):
            out.append(f"{k}.attrs changed")
    return out[:8]


# ------------------------------------------------------------------------------------------
# invariant walker over a snapshot
# ------------------------------------------------------------------------------------------
def reach(s, roots):
    """pre-order labels reachable from the given root labels through children (cycle guarded)."""
    out = []
    seen = set()

    def walk(x):
        if x in seen or x not in s['T']:
            out.append(x)
            return
        seen.add(x)
        out.append(x)
        for c in s['T'][x]['children']:
            walk(c)
    for r in roots:
        walk(r)
    return out


def ancestors(s, x):
    out = []
    seen = {x}
    p = s['T'][x]['parent'] if x in s['T'] else None
    while p is not None and p in s['T'] and p not in seen:
        out.append(p)
        seen.add(p)
        p = s['T'][p]['parent']
    return out


def invariants(s):
    """returns list of (prop, name, detail) for C01, C05, C11 on snapshot s."""
    out = []
    T = s['T']
    holders = {k: [] for k in T}
    for k, v in T.items():
        for c in v['children']:
            if c in holders:
                holders[c].append(('t', k))
            else:
                out.append(('C01', 'unknown-child', f'{k} lists {c}'))
    for w, r in s['R'].items():
        for c in r:
            if c in holders:
                holders[c].append(('w', w))
            else:
                out.append(('C01', 'unknown-root', f'{w} lists {c}'))
    forest_ok = True
    for k, v in T.items():
        p = v['parent']
        hs = holders[k]
        if p is not None:
            if hs.count(('t', p)) != 1:
                out.append(('C01', 'parent-does-not-list-child-once', f'{k} reports parent {p}, listed by {hs}'))
                forest_ok = False
            if len(hs) != hs.count(('t', p)):
                out.append(('C01', 'listed-by-non-parent', f'{k} reports parent {p}, listed by {hs}'))
                forest_ok = False
        else:
            th = [h for h in hs if h[0] == 't']
            wh = [h for h in hs if h[0] == 'w']
            if th:
                out.append(('C01', 'child-does-not-report-parent', f'{k} reports no parent, listed by {th}'))
                forest_ok = False
            if len(wh) > 1:
                out.append(('C01', 'root-listed-more-than-once', f'{k} listed by {wh}'))
                forest_ok = False
        # ancestor cycle
        seen = {k}
        q = p
        while q is not None and q in T:
            if q in seen:
                out.append(('C01', 'ancestor-cycle', f'{k} is its own ancestor'))
                forest_ok = False
                break
            seen.add(q)
            q = T[q]['parent']
    # links
    for k, v in T.items():
        for p in set(v['preds']):
            if p == k:
                out.append(('C01', 'self-link', f'{k} precedes itself'))
            if p in T and k not in T[p]['succs']:
                out.append(('C01', 'asymmetric-link', f'{p} in preds({k}) but {k} not in succs({p})'))
        for q in set(v['succs']):
            if q == k:
                out.append(('C01', 'self-link', f'{k} succeeds itself'))
            if q in T and k not in T[q]['preds']:
                out.append(('C01', 'asymmetric-link', f'{q} in succs({k}) but {k} not in preds({q})'))
    if forest_ok:
        for k, v in T.items():
            anc = set(ancestors(s, k))
            for p in set(v['preds']) | set(v['succs']):
                if p in anc:
                    out.append(('C01', 'link-to-ancestor', f'{k} linked with its ancestor {p}'))
    # dependency cycle (iterative colouring over preds)
    color = {}
    for start in T:
        if color.get(start):
            continue
        stack = [(start, iter(sorted(set(T[start]['preds']))))]
        color[start] = 1
        found = False
        while stack and not found:
            node, it = stack[-1]
            for p in it:
                if p not in T or p == node:
                    continue
                c = color.get(p, 0)
                if c == 1:
                    out.append(('C01', 'dependency-cycle', f'cycle through {p} and {node}'))
                    found = True
                    break
                if c == 0:
                    color[p] = 1
                    stack.append((p, iter(sorted(set(T[p]['preds'])))))
                    break
            else:
                color[node] = 2
                stack.pop()
        if found:
            break
    if True:
        # C11 owner == reachability, C05 uniqueness (reach() is cycle-guarded, so these are well defined on corrupt forests too)
        member = {}
        for w, r in s['R'].items():
            rs = reach(s, r)
            for x in rs:
                member.setdefault(x, set()).add(w)
            ids = [T[x]['id'] for x in rs if x in T]
            if len(set(ids)) != len(ids):
                dup = sorted({repr(i) for i in ids if ids.count(i) > 1})
                out.append(('C05', 'duplicate-id-in-wbs', f'{w} contains ids {dup} more than once'))
        for k, v in T.items():
            ws = member.get(k, set())
            if len(ws) > 1:
                out.append(('C11', 'member-of-two-wbs', f'{k} reachable from {sorted(ws)}'))
            if v['owner'] is not None and v['owner'] not in ws:
                out.append(('C11', 'owner-but-not-member', f"{k} reports owner {v['owner']} but is not reachable from its roots"))
            for w in ws:
                if v['owner'] != w:
                    out.append(('C11', 'member-but-not-owner', f"{k} reachable from {w} but reports owner {v['owner']}"))
        for k, v in T.items():
            if v['parent'] is None and not member.get(k):
                ids = [T[x]['id'] for x in reach(s, [k]) if x in T]
                if len(set(ids)) != len(ids):
                    out.append(('C05', 'duplicate-id-in-detached-tree', f'tree of {k} has duplicate ids'))
    return out


def has_dup_ids(s):
    return any(p == 'C05' for p, _, _ in invariants(s))


# ------------------------------------------------------------------------------------------
# reference model (documented effects) on snapshots
# ------------------------------------------------------------------------------------------
def _hl(s, holder):
    return s['T'][holder[1]]['children'] if holder[0] == 't' else s['R'][holder[1]]


def m_detach(s, x):
    for v in s['T'].values():
        while x in v['children']:
            v['children'].remove(x)
    for r in s['R'].values():
        while x in r:
            r.remove(x)


def m_subtree(s, x):
    return [y for y in reach(s, [x]) if y in s['T']]


def m_set_owner(s, x, w):
    for y in m_subtree(s, x):
        s['T'][y]['owner'] = w


def m_release(s, x):
    m_detach(s, x)
    s['T'][x]['parent'] = None
    m_set_owner(s, x, None)


def m_attach_last(s, x, holder):
    m_detach(s, x)
    if holder is None:
        s['T'][x]['parent'] = None
        return
    _hl(s, holder).append(x)
    if holder[0] == 't':
        s['T'][x]['parent'] = holder[1]
        m_set_owner(s, x, s['T'][holder[1]]['owner'])
    else:
        s['T'][x]['parent'] = None
        m_set_owner(s, x, holder[1])


def uniq_first(l):
    out = []
    for x in l:
        if x is not None and x not in out:
            out.append(x)
    return out


def uniq_last(l):
    return list(reversed(uniq_first(list(reversed(l)))))


def m_set_children(s, holder, L):
    for old in list(_hl(s, holder)):
        if old not in L:
            m_release(s, old)
    for x in L:
        m_detach(s, x)
    _hl(s, holder)[:] = []
    for x in L:
        m_attach_last(s, x, holder)


def m_set_links(s, t, L, kind):
    other = 'succs' if kind == 'preds' else 'preds'
    new = uniq_first(L)
    old = s['T'][t][kind]
    for p in set(old) - set(new):
        s['T'][p][other] = [q for q in s['T'][p][other] if q != t]
    for p in new:
        if p not in old and t not in s['T'][p][other]:
            s['T'][p][other] = s['T'][p][other] + [t]
    s['T'][t][kind] = new


def is_member(s, w, x):
    return x in reach(s, s['R'][w])


def match_filter(s, x, flt):
    """tiny filter evaluator for remove_all inside histories (full language: C18 monitor)."""
    v = s['T'][x]
    if flt['kind'] == 'ids':
        return v['id'] in flt['ids']
    if flt['kind'] == 'id':
        return v['id'] == flt['id']
    if flt['kind'] == 'name':
        return dict(v['attrs']).get('name') == repr(flt['name'])
    if flt['kind'] == 'ids+name':
        return v['id'] in flt['ids'] and dict(v['attrs']).get('name') == repr(flt['name'])
    if flt['kind'] in ('all', 'none'):
        return True
    raise KeyError(flt['kind'])


def expected(s0, op):
    """Admissible post-states for an *accepted* call (list of snapshots), or None when the
    documentation leaves the effect open (counted as unspecified).  Also returns the expected
    return value descriptor when one is documented: (states, ret) with ret = ('any',) if open."""
    s = copy.deepcopy(s0)
    k = op[0]
    ANY = ('any',)
    if k == 'parent=':
        _, t, p = op
        if p is None:
            w = s['T'][t]['owner']
            if w is not None:
                if s['T'][t]['parent'] is None:
                    a = copy.deepcopy(s)
                    m_attach_last(a, t, ('w', w))
                    return [s, a], ANY
                m_attach_last(s, t, ('w', w))
                return [s], ANY
            m_attach_last(s, t, None)
            return [s], ANY
        if s['T'][t]['parent'] == p:
            a = copy.deepcopy(s)
            m_attach_last(a, t, ('t', p))
            return [s, a], ANY
        m_attach_last(s, t, ('t', p))
        return [s], ANY
    if k == 'children=':
        holder, L, _form = op[1], op[2], op[3]
        if _form == 'view':
            L = list(_hl(s, tuple(op[4])))        # a live children/roots view of another (or the same) holder is the value
        L = [x for x in L if x is not None]
        outs = []
        for LL in ([uniq_first(L)] if uniq_first(L) == uniq_last(L) else [uniq_first(L), uniq_last(L)]):
            a = copy.deepcopy(s)
            m_set_children(a, tuple(holder), LL)
            outs.append(a)
        return outs, ANY
    if k == 'append':
        # "append puts the task last" -- also for a task that already is a child of that list
        _, holder, x = op
        holder = tuple(holder)
        m_attach_last(s, x, holder)
        return [s], ANY
    if k == 'floordiv':
        # documented as children += other, i.e. children = children + other: a task that is already a child may keep its
        # place (first occurrence) or move last (last occurrence) -- both are admissible
        _, holder, L, _single = op
        holder = tuple(holder)
        seq = list(_hl(s, holder)) + [x for x in L if x is not None]
        outs = []
        for LL in ([uniq_first(seq)] if uniq_first(seq) == uniq_last(seq) else [uniq_first(seq), uniq_last(seq)]):
            a = copy.deepcopy(s)
            m_set_children(a, holder, LL)
            outs.append(a)
        return outs, ANY
    if k == 'lremove':
        _, holder, x = op
        cur = _hl(s, tuple(holder))
        if x in cur:
            m_release(s, x)
            return [s], ('val', True)
        return [s], ('val', False)
    if k == 'insert':
        _, holder, i, x = op
        holder = tuple(holder)
        cur = _hl(s, holder)
        if x in cur or type(i) is not int or not (0 <= i <= len(cur)):      # (True/False as a position: unspecified)
            return None, ANY
        m_attach_last(s, x, holder)
        cur = _hl(s, holder)
        cur.remove(x)
        cur.insert(i, x)
        return [s], ANY
    if k == 'move':
        _, holder, xs, before, after, _single = op[:6]
        holder = tuple(holder)
        xs = uniq_first(xs)
        cur = _hl(s, holder)
        anchor = before if before is not None else after
        if anchor is None or anchor in xs or (before is not None and after is not None):
            return None, ANY
        if any(x not in cur for x in xs) or anchor not in cur:
            return None, ANY
        rest = [c for c in cur if c not in xs]
        i = rest.index(anchor) + (0 if before is not None else 1)
        outs = []
        for perm in ([xs, xs[::-1]] if len(xs) > 1 else [xs]):
            a = copy.deepcopy(s)
            _hl(a, holder)[:] = rest[:i] + list(perm) + rest[i:]
            outs.append(a)
        return outs, ANY
    if k == 'sort':
        _, holder, key, rev = op
        holder = tuple(holder)
        cur = _hl(s, holder)

        def attr(lab, name):
            if name == 'id':
                return s['T'][lab]['id']
            d = dict(s['T'][lab]['attrs'])
            return eval(d[name], {'__builtins__': {}}, {})  # reprs of str/int/float/None/bool only
        if isinstance(key, str):
            kf = lambda lab: attr(lab, key)  # noqa: E731
        else:
            # "orders the children by the attribute": for a list of attributes the statement does not say how the values are
            # combined -- the joined text (what the pinned code does) and the tuple of values are both admissible readings
            kf = lambda lab: '-'.join(str(attr(lab, k_)) for k_ in key)  # noqa: E731
            for k_ in key:
                vals = [attr(lab, k_) for lab in cur]
                if any(v is None for v in vals) or len({type(v) for v in vals} - {int, float}) > 1 or \
                        ({type(v) for v in vals} & {int, float} and {type(v) for v in vals} - {int, float}):
                    # where a listed attribute is missing on some task, or its values do not compare, the order is open
                    # (missing first? compared as text?): only "a permutation, nothing else touched" is judged (mon_graph)
                    return None, ('permutation', list(holder))
            try:
                alt = copy.deepcopy(s)
                cur2 = _hl(alt, holder)
                cur2[:] = sorted(cur2, key=lambda lab: tuple(attr(lab, k_) for k_ in key), reverse=rev)
            except TypeError:
                alt = None
            cur[:] = sorted(cur, key=kf, reverse=rev)
            return ([s] if alt is None or alt == s else [s, alt]), ANY
        cur[:] = sorted(cur, key=kf, reverse=rev)
        return [s], ANY
    if k == 'reorder':
        _, holder, ids = op
        holder = tuple(holder)
        cur = _hl(s, holder)
        rest = list(cur)
        first = []
        if len(set(map(repr, ids))) != len(ids):
            # an id named twice: whether that is refused or read as named once is open, but a call that returns has reordered
            # the list (a permutation of the same children) and touched nothing else
            return None, ('permutation', list(holder))
        for i_ in ids:
            m = [c for c in rest if s['T'][c]['id'] == i_]
            if len(m) != 1:
                return None, ANY
            first.append(m[0])
            rest.remove(m[0])
        cur[:] = first + rest
        return [s], ANY
    if k == 'remove_all':
        _, holder, flt = op
        holder = tuple(holder)
        if flt['kind'] in ('int', 'raising'):
            return None, ANY
        victims = [x for x in _hl(s, holder) if match_filter(s, x, flt)]
        for x in victims:
            m_release(s, x)
        return [s], ('labels', victims)
    if k == 'wbs.remove_all':
        _, w, flt = op
        if flt['kind'] in ('int', 'raising'):
            return None, ANY
        matching = [x for x in reach(s, s['R'][w]) if match_filter(s, x, flt)]
        for x in matching:
            if is_member(s, w, x):
                m_release(s, x)
        return [s], ('labels', matching)
    if k in ('preds=', 'succs='):
        t, L, _form = op[1], op[2], op[3]
        if _form == 'view':
            L = list(s['T'][op[4][1]][op[4][0]])   # a live predecessors/successors view of some task is the value
        m_set_links(s, t, [x for x in L if x is not None], 'preds' if k == 'preds=' else 'succs')
        return [s], ANY
    if k in ('preds.append', 'succs.append'):
        kind = k[:5]
        m_set_links(s, op[1], list(s['T'][op[1]][kind]) + [op[2]], kind)
        return [s], ANY
    if k in ('lshift', 'rshift'):
        kind = 'preds' if k == 'lshift' else 'succs'
        m_set_links(s, op[1], list(s['T'][op[1]][kind]) + list(op[2]), kind)
        return [s], ANY
    if k in ('preds.remove', 'succs.remove'):
        kind = k[:5]
        had = op[2] in s['T'][op[1]][kind]
        m_set_links(s, op[1], [x for x in s['T'][op[1]][kind] if x != op[2]], kind)
        return [s], ('val', had)
    if k in ('preds.remove_all', 'succs.remove_all'):
        kind = k[:5]
        flt = op[2]
        if flt['kind'] in ('int', 'raising'):
            return None, ANY
        victims = [x for x in s['T'][op[1]][kind] if match_filter(s, x, flt)]
        m_set_links(s, op[1], [x for x in s['T'][op[1]][kind] if x not in victims], kind)
        return [s], ('labels', victims)
    if k == 'linkview.use':
        return expected(s0, op[2])
    if k in ('list_lshift', 'list_rshift'):
        _, holder, L = op
        kind = 'preds' if k == 'list_lshift' else 'succs'
        for t in list(_hl(s, tuple(holder))):
            m_set_links(s, t, list(s['T'][t][kind]) + list(L), kind)
        return [s], ANY
    if k == 'wbs.remove':
        _, w, x = op
        if is_member(s, w, x):
            m_release(s, x)
            return [s], ('val', True)
        return [s], ('val', False)
    if k == 'bulk_set':
        _, holder, attr, val = op
        for t in _hl(s, tuple(holder)):
            d = dict(s['T'][t]['attrs'])
            d[attr] = repr(val)
            s['T'][t]['attrs'] = tuple(sorted(d.items()))
        return [s], ANY
    if k == 'bulk_parent':
        _, holder, p = op
        for t in list(_hl(s, tuple(holder))):
            if s['T'][t]['parent'] == p:
                return None, ANY
            m_attach_last(s, t, ('t', p))
        return [s], ANY
    if k == 'new':
        return None, ANY   # handled by the driver (needs the new label)
    if k.startswith('stale.'):
        return expected(s0, op[2])
    return None, ANY


# ------------------------------------------------------------------------------------------
# executor: descriptor -> real call through the public API
# ------------------------------------------------------------------------------------------
class _Boom(Exception):
    """raised by hostile user callables / iterables"""


def _flt_args(u, flt):
    if flt['kind'] == 'ids':
        ids = list(flt['ids'])
        if flt.get('as') == 'callable':
            return (lambda t: t.id in ids,), {}
        return (), {'id_in_': ids}
    if flt['kind'] == 'id':
        return (), {'id': flt['id']}
    if flt['kind'] == 'name':
        return (), {'name': flt['name']}
    if flt['kind'] == 'ids+name':
        ids = list(flt['ids'])      # a predicate and a keyword in the same call: both must hold
        return (lambda t: t.id in ids,), {'name': flt['name']}
    if flt['kind'] == 'none':
        return (), {}                     # no filter at all: everything matches
    if flt['kind'] == 'all':
        return (lambda t: True,), {}
    if flt['kind'] == 'int':
        return (flt['value'],), {}
    if flt['kind'] == 'raising':
        n = [0]
        after = flt['after']

        def f(t):
            n[0] += 1
            if n[0] > after:
                raise _Boom('filter predicate failed')
            return True
        return (f,), {}
    raise KeyError(flt['kind'])


def _seq(u, labs, form):
    objs = [u.T(x) for x in labs]
    if form == 'list':
        return objs
    if form == 'tuple':
        return tuple(objs)
    if form == 'gen':
        return (o for o in objs)
    if form == 'single':
        return objs[0] if objs else None
    if form == 'none':
        return None
    if form == 'gen_raises':
        def g():
            for o in objs:
                yield o
            raise _Boom('iterable failed')
        return g()
    raise KeyError(form)


def facade(u, holder):
    return u.T(holder[1]).children if holder[0] == 't' else u.wobj[holder[1]].roots


def execute(u, op):
    """perform the call; returns a JSON-able description of the return value"""
    return _ret(u, _execute(u, op))


def _ret(u, r):
    from pjplan import Task as _T
    if r is None or isinstance(r, (bool, int, float, str)):
        return r
    if isinstance(r, tuple) and len(r) == 2 and r[0] == 'newlabel':
        return r
    if isinstance(r, _T):
        return ('task', u.L(r))
    if isinstance(r, (list, tuple)) and all(isinstance(x, str) or x is None for x in r):
        return list(r)
    try:
        return ('tasks', [u.L(x) for x in r])
    except Exception:
        return ('object', type(r).__name__)


def _execute(u, op):
    k = op[0]
    if k == 'parent=':
        u.T(op[1]).parent = u.T(op[2])
        return None
    if k == 'children=':
        holder, L, form = op[1], op[2], op[3]
        val = facade(u, op[4]) if form == 'view' else _seq(u, L, form)
        if holder[0] == 't':
            u.T(holder[1]).children = val
        else:
            u.wobj[holder[1]].roots = val
        return None
    if k == 'append':
        return facade(u, op[1]).append(u.T(op[2]))
    if k == 'floordiv':
        _, holder, L, single = op
        arg = u.T(L[0]) if single else u.TS(L)
        target = u.T(holder[1]) if holder[0] == 't' else u.wobj[holder[1]]
        r = target // arg
        return None if r is arg else 'other'
    if k == 'lremove':
        return facade(u, op[1]).remove(u.T(op[2]))
    if k == 'insert':
        return facade(u, op[1]).insert(op[2], u.T(op[3]))
    if k == 'move':
        _, holder, xs, before, after, single = op[:6]
        arg = u.T(xs[0]) if single else u.TS(xs)
        if len(op) > 6 and op[6] == 'gen' and not single:
            arg = (x_ for x_ in list(arg))       # a one-shot iterable of tasks
        return facade(u, holder).move(arg, before=u.T(before), after=u.T(after))
    if k == 'sort':
        _, holder, key, rev = op
        return facade(u, holder).sort(key, reverse=rev)
    if k == 'reorder':
        return facade(u, op[1]).reorder(list(op[2]))
    if k == 'remove_all':
        a, kw = _flt_args(u, op[2])
        r = facade(u, op[1]).remove_all(*a, **kw)
        return [u.L(t) for t in r]
    if k == 'wbs.remove_all':
        a, kw = _flt_args(u, op[2])
        r = u.wobj[op[1]].remove_all(*a, **kw)
        return [u.L(t) for t in r]
    if k in ('preds=', 'succs='):
        if op[3] == 'view':
            src = u.T(op[4][1])
            val = src.predecessors if op[4][0] == 'preds' else src.successors
        else:
            val = _seq(u, op[2], op[3])
        if k == 'preds=':
            u.T(op[1]).predecessors = val
        else:
            u.T(op[1]).successors = val
        return None
    if k == 'preds.append':
        return u.T(op[1]).predecessors.append(u.T(op[2]))
    if k == 'succs.append':
        return u.T(op[1]).successors.append(u.T(op[2]))
    if k == 'preds.remove':
        return u.T(op[1]).predecessors.remove(u.T(op[2]))
    if k == 'succs.remove':
        return u.T(op[1]).successors.remove(u.T(op[2]))
    if k in ('preds.remove_all', 'succs.remove_all'):
        a, kw = _flt_args(u, op[2])
        lst = u.T(op[1]).predecessors if k.startswith('preds') else u.T(op[1]).successors
        return [u.L(t) for t in lst.remove_all(*a, **kw)]
    if k == 'linkview.get':
        u.stale[op[1]] = (op[2], u.T(op[2][1]).predecessors if op[2][0] == 'preds' else u.T(op[2][1]).successors)
        return None
    if k == 'linkview.use':
        _spec, view = u.stale[op[1]]
        inner = op[2]
        if inner[0].endswith('.append'):
            return view.append(u.T(inner[2]))
        if inner[0].endswith('.remove'):
            return view.remove(u.T(inner[2]))
        a, kw = _flt_args(u, inner[2])
        return [u.L(t) for t in view.remove_all(*a, **kw)]
    if k == 'lshift':
        arg = u.T(op[2][0]) if op[3] else u.TS(op[2])
        u.T(op[1]) << arg
        return None
    if k == 'rshift':
        arg = u.T(op[2][0]) if op[3] else u.TS(op[2])
        u.T(op[1]) >> arg
        return None
    if k == 'list_lshift':
        facade(u, op[1]) << u.TS(op[2])
        return None
    if k == 'list_rshift':
        facade(u, op[1]) >> u.TS(op[2])
        return None
    if k == 'wbs.remove':
        return u.wobj[op[1]].remove(u.T(op[2]))
    if k == 'bulk_set':
        setattr(facade(u, op[1]), op[2], op[3])
        return None
    if k == 'bulk_parent':
        facade(u, op[1]).parent = u.T(op[2])
        return None
    if k == 'new':
        _, tid, name, rel = op
        kw = {}
        for key, val in rel.items():
            if key == 'parent':
                kw['parent'] = u.T(val)
            else:
                kw[key] = u.TS(val)
        t = Task(tid, name, **kw)
        return ('newlabel', u.add_task(t))
    if k == 'stale.get':
        u.stale[op[1]] = (op[2], facade(u, op[2]))
        return None
    if k.startswith('stale.'):
        # op = ('stale.use', slot, inner-op) : inner-op is a list op on the holder the facade was taken from
        slot, inner = op[1], op[2]
        holder, f = u.stale[slot]
        kk = inner[0]
        if kk == 'append':
            return f.append(u.T(inner[2]))
        if kk == 'lremove':
            return f.remove(u.T(inner[2]))
        if kk == 'insert':
            return f.insert(inner[2], u.T(inner[3]))
        if kk == 'move':
            arg = u.T(inner[2][0]) if inner[5] else u.TS(inner[2])
            return f.move(arg, before=u.T(inner[3]), after=u.T(inner[4]))
        if kk == 'sort':
            return f.sort(inner[2], reverse=inner[3])
        if kk == 'reorder':
            return f.reorder(list(inner[2]))
        raise KeyError(kk)
    raise KeyError(k)
