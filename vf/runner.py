"""./check entry point: shards the workload over fresh interpreters, merges what the monitors
observed, classifies violations against KNOWN_FINDINGS.json, writes evidence, sets the exit code.

exit 0: no unknown violation.   exit 1: VIOLATION line(s).   exit 2: inconclusive (never VIOLATION).
"""
import argparse
import importlib
import json
import os
import shutil
import subprocess
import sys
import tempfile
import time

HERE = os.path.dirname(os.path.dirname(os.path.abspath(__file__)))
# The code under observation is /repo's working tree.  VERIF_REPO_SRC exists only for the self-test (tools/selftest.py),
# which points the same checks at a scratch copy carrying a seeded defect; registered commands never set it.
REPO_SRC = os.environ.get('VERIF_REPO_SRC') or '/repo/src'


def load_findings(prop):
    path = os.path.join(HERE, 'KNOWN_FINDINGS.json')
    if not os.path.exists(path):
        return []
    with open(path) as f:
        data = json.load(f)
    return [e for e in data.get('findings', []) if e.get('property') == prop]


def spawn(args, out, timeout):
    env = dict(os.environ)
    env['PYTHONPATH'] = f"{REPO_SRC}:{HERE}:{HERE}/.deps"
    env['PYTHONHASHSEED'] = '0'
    env['PYTHONDONTWRITEBYTECODE'] = '1'
    cmd = [sys.executable, '-P', '-X', 'faulthandler', '-m', 'vf.worker'] + [str(a) for a in args]
    return subprocess.Popen(cmd, cwd=HERE, env=env, stdout=subprocess.PIPE, stderr=subprocess.STDOUT, text=True), out, \
        time.time() + timeout


def collect(procs):
    results = []
    for p, out, deadline in procs:
        try:
            so, _ = p.communicate(timeout=max(1, deadline - time.time()))
            status = 'exit%d' % p.returncode
        except subprocess.TimeoutExpired:
            p.kill()
            so, _ = p.communicate()
            status = 'watchdog'
        r = None
        if os.path.exists(out):
            try:
                with open(out) as f:
                    r = json.load(f)
            except Exception as e:
                status += ':badjson:' + type(e).__name__
        results.append((status, r, (so or '')[-2000:]))
    return results


def main():
    ap = argparse.ArgumentParser()
    ap.add_argument('prop')
    ap.add_argument('--tier', default=os.environ.get('VERIF_TIER') or 'quick', choices=['quick', 'thorough'])
    ap.add_argument('--seed', type=int, default=None)
    ap.add_argument('--replay', default=None)
    ap.add_argument('--shards', type=int, default=None)
    ap.add_argument('--cases', type=int, default=None)
    ap.add_argument('--seconds', type=float, default=None)
    ap.add_argument('--no-evidence', action='store_true')
    a = ap.parse_args()
    prop = a.prop
    if a.seed is None:
        try:
            a.seed = int(os.environ.get('VERIF_SEED', '0'))
        except ValueError:
            a.seed = 0
    sys.path.insert(0, HERE)
    from vf import registry
    if prop not in registry.REG:
        print(f'unknown property {prop}')
        return 3
    modname, q, th = registry.REG[prop]
    shards, cases, seconds = q if a.tier == 'quick' else th
    shards = a.shards or shards
    cases = a.cases or cases
    seconds = a.seconds or seconds
    t0 = time.time()
    work = tempfile.mkdtemp(prefix=f'{prop}_', dir=os.path.join(HERE, '.work'))
    try:
        return run(a, prop, modname, shards, cases, seconds, work, t0)
    finally:
        shutil.rmtree(work, ignore_errors=True)


def run(a, prop, modname, shards, cases, seconds, work, t0):
    findings = load_findings(prop)
    open_keys = {e['key'] for e in findings if e.get('status') == 'open'}
    inconclusive = []
    lines = []
    unknown = []     # (key, msg, case, origin)
    known_hits = {}

    # ---------------------------------------------------------------- replay mode
    if a.replay:
        with open(a.replay) as f:
            rep = json.load(f)
        entries = [{'id': 'replay', 'case': rep['case']}]
        dfile = os.path.join(work, 'directed.json')
        with open(dfile, 'w') as f:
            json.dump(entries, f)
        res = collect([spawn([prop, a.tier, a.seed, 0, 1, 1, 600, os.path.join(work, 'replay.json'), dfile],
                             os.path.join(work, 'replay.json'), 900)])
        status, r, so = res[0]
        if r is None or 'harness_error' in r or 'error' in (r.get('directed') or [{}])[0]:
            print('INCONCLUSIVE replay failed:', status, (r or {}).get('harness_error') or so or r)
            return 2
        viols = r['directed'][0]['violations']
        for v in viols:
            print(f"replayed: key={v['key']} {v['msg']}")
        bad = [v for v in viols if v['key'] not in open_keys]
        if bad:
            print(f"VIOLATION property={prop} replay={os.path.abspath(a.replay)}")
            return 1
        print('replay: no unknown violation reproduced')
        return 0

    # ---------------------------------------------------------------- directed + random phases
    procs = []
    # several witnesses may share a mechanism key: the directed id is key#position
    dentries = [{'id': f"{e['key']}#{n}", 'case': e['witness']} for n, e in enumerate(findings) if e.get('witness') is not None]
    if dentries:
        dfile = os.path.join(work, 'directed.json')
        with open(dfile, 'w') as f:
            json.dump(dentries, f)
        dout = os.path.join(work, 'directed_out.json')
        procs.append(spawn([prop, a.tier, a.seed, 0, 1, 1, 600, dout, dfile], dout, 900))
    for s in range(shards):
        out = os.path.join(work, f'shard{s}.json')
        procs.append(spawn([prop, a.tier, a.seed, s, shards, cases, seconds, out], out, seconds * 4 + 180))
    results = collect(procs)

    directed_res = None
    if dentries:
        directed_res = results[0]
        results = results[1:]

    mod_meta = {}
    try:
        sys.path.insert(0, REPO_SRC)
        import vf.env  # noqa
        mod = importlib.import_module(modname)
        mod_meta = mod.META[prop]
    except Exception as e:  # pragma: no cover
        inconclusive.append(f'cannot import monitor module: {type(e).__name__}: {e}')

    # directed phase verdicts
    stale = []
    directed_evals = 0
    if directed_res is not None:
        status, r, so = directed_res
        if r is None or 'harness_error' in r:
            inconclusive.append(f'directed phase failed ({status}): ' + ((r or {}).get('harness_error') or so)[-600:])
        else:
            byid = {d['id']: d for d in r['directed']}
            for n, e in enumerate(findings):
                d = byid.get(f"{e['key']}#{n}")
                if d is None:
                    continue
                if 'error' in d:
                    inconclusive.append(f"directed witness {e['key']} crashed the harness: {d['error'][-400:]}")
                    continue
                directed_evals += d.get('evaluations', 0)
                keys = {v['key'] for v in d['violations']}
                if e.get('status') == 'open':
                    if e['key'] in keys:
                        known_hits[e['key']] = known_hits.get(e['key'], 0) + 1
                    else:
                        stale.append(e['key'])
                    for v in d['violations']:
                        if v['key'] not in open_keys:
                            unknown.append((v['key'], v['msg'], v['case'], 'directed:' + e['key']))
                else:  # fixed: plain regression case, suppresses nothing
                    for v in d['violations']:
                        if v['key'] not in open_keys:
                            unknown.append((v['key'], v['msg'], v['case'], 'regression:' + e['key']))
                        else:
                            known_hits[v['key']] = known_hits.get(v['key'], 0) + 1

    # merge shards
    evaluations = 0
    sigs = set()
    counters = {}
    samples = []
    notes = []
    cases_run = 0
    envinfo = None
    clock_calls = 0
    more = {}
    cov = {}
    for status, r, so in results:
        if r is None:
            inconclusive.append(f'shard died ({status}): {so[-400:]}')
            continue
        if 'harness_error' in r:
            inconclusive.append(f"shard {r.get('shard')} harness error: {r['harness_error'][-800:]}")
            continue
        if status == 'watchdog':
            inconclusive.append(f"shard {r.get('shard')} hit the wall-clock watchdog")
        evaluations += r['evaluations']
        sigs.update(r['sigs'])
        cases_run += r.get('cases', 0)
        clock_calls += r.get('clock_calls', 0)
        for k, v in r['counters'].items():
            counters[k] = counters.get(k, 0) + v
        for k, v in r.get('more_violations', {}).items():
            more[k] = more.get(k, 0) + v
        for s_ in r['samples']:
            if len(samples) < 6:
                samples.append(s_)
        notes += r.get('notes', [])
        inconclusive += r.get('inconclusive', [])
        if r.get('env'):
            envinfo = r['env']
        for f_, ls in (r.get('cover') or {}).items():
            cov.setdefault(f_, set()).update(ls)
        for v in r['violations']:
            if v['key'] in open_keys:
                known_hits[v['key']] = known_hits.get(v['key'], 0) + 1
            else:
                unknown.append((v['key'], v['msg'], v['case'], f"shard{r.get('shard')}"))
    for k, v in more.items():
        if k in open_keys:
            known_hits[k] = known_hits.get(k, 0) + v

    # reached-or-inconclusive counters
    for name in mod_meta.get('required', []):
        if counters.get(name, 0) <= 0:
            inconclusive.append(f'required counter {name} is zero: the deciding monitor was not reached')
    if evaluations == 0:
        inconclusive.append('no oracle evaluation happened')
    if envinfo and not envinfo['pjplan_file'].startswith(os.path.realpath(REPO_SRC) + '/'):
        inconclusive.append(f"pjplan imported from {envinfo['pjplan_file']}, not from {REPO_SRC}")

    # report
    for e in findings:
        if e.get('status') == 'open' and e['key'] in known_hits:
            lines.append(f"KNOWN-FINDING: property={prop} {e['key']}: {e['what']}")
    replay_paths = []
    seen_keys = set()
    for key, msg, case, origin in unknown:
        if key in seen_keys:
            continue
        seen_keys.add(key)
        from vf import core
        rdir = os.path.join(HERE, 'replays', prop)
        os.makedirs(rdir, exist_ok=True)
        body = core.jdump({'property': prop, 'key': key, 'msg': msg, 'origin': origin, 'seed': a.seed,
                           'tier': a.tier, 'case': case}, indent=1)
        path = os.path.join(rdir, core.h8(key + body) + '.json')
        with open(path, 'w') as f:
            f.write(body)
        replay_paths.append(path)
        lines.append(f'violation: key={key} ({origin}) {msg}'[:600])
        lines.append(f'VIOLATION property={prop} replay={path}')

    reach = {}
    try:
        from vf import cover
        files = []
        with open(os.path.join(HERE, 'properties.jsonl')) as f:
            for ln in f:
                pj = json.loads(ln)
                if pj['id'] == prop:
                    files = [x.split('src/pjplan/', 1)[1] for x in pj.get('anchors', {}).get('files', []) if 'src/pjplan/' in x]
        reach = cover.summarize(os.path.join(REPO_SRC, 'pjplan'), {k: sorted(v) for k, v in cov.items()}, files)
    except Exception as e:  # informational only
        reach = {'error': f'{type(e).__name__}: {e}'}
    wall = time.time() - t0
    ev = {
        'property_id': prop, 'tier': a.tier, 'seed': a.seed, 'level': mod_meta.get('level', 'exploration'),
        'coverage': {
            'evaluations': evaluations + directed_evals,
            'distinct_nontrivial': len(sigs),
            'rule': mod_meta.get('rule', ''),
            'samples': samples,
            'cases': cases_run,
            'shards': shards,
            'counters': dict(sorted(counters.items())),
            'clock_reads': clock_calls,
            'known_findings_reproduced': sorted(known_hits),
            'known_findings_stale': stale,
            'directed_witnesses': len(dentries),
            'inconclusive': inconclusive,
            'notes': sorted(set(notes))[:10],
            'code_under_observation': envinfo,
            'reach_in_anchor_files': reach,
            'unknown_violation_keys': sorted(seen_keys),
        },
        'assumptions': mod_meta.get('assumptions', []),
        'wall_s': round(wall, 2),
        'violations': len(seen_keys),
    }
    if not a.no_evidence:
        write_evidence(prop, ev, inconclusive)

    for ln in lines:
        print(ln)
    summary = (f"{prop} tier={a.tier} seed={a.seed}: cases={cases_run} evaluations={ev['coverage']['evaluations']} "
               f"distinct_nontrivial={len(sigs)} known={sorted(known_hits)} unknown={sorted(seen_keys)} "
               f"wall={wall:.1f}s")
    print(summary)
    if seen_keys:
        return 1
    if inconclusive:
        for r_ in inconclusive[:10]:
            print('INCONCLUSIVE:', r_)
        return 2
    return 0


def _pretty(o):
    """samples are for reading, not for replay: datetimes as ISO text"""
    if isinstance(o, dict):
        if set(o.keys()) == {'$dt'}:
            y, m, d, hh, mm, ss, us = (list(o['$dt']) + [0] * 7)[:7]
            return f'{y:04d}-{m:02d}-{d:02d}T{hh:02d}:{mm:02d}' + (f':{ss:02d}.{us:06d}' if ss or us else '')
        return {k: _pretty(v) for k, v in o.items()}
    if isinstance(o, list):
        return [_pretty(v) for v in o]
    return o


def write_evidence(prop, ev, inconclusive):
    from vf import core
    ev['coverage']['samples'] = _pretty(json.loads(core.jdump(ev['coverage']['samples'])))
    path = os.path.join(HERE, 'evidence', f'{prop}.json')
    os.makedirs(os.path.dirname(path), exist_ok=True)
    text = core.jdump(ev, indent=1)
    try:
        import jsonschema
        with open('/root/.vp/EVIDENCE.schema.json') as f:
            schema = json.load(f)
        jsonschema.validate(json.loads(text), schema)
    except ImportError:
        pass
    except FileNotFoundError:
        pass
    except Exception as e:
        inconclusive.append(f'evidence does not validate: {str(e)[:300]}')
    with open(path, 'w') as f:
        f.write(text + '\n')


if __name__ == '__main__':
    sys.exit(main())
