"""Calendar ASTs: JSON-able descriptions from which the harness builds (1) the real pjplan calendar
through the public constructors/operators and (2) a reference evaluator implementing the sentence
of C17.  Used by C17 directly and by the scheduler oracles for capacities.

AST forms (lists, JSON-able; datetimes as plain datetimes):
  ['weekly',  {'days': [..], 'units': x, 'start': d|None, 'end': d|None}]
  ['weeklyd', {'map': {weekday: units}, 'start': d|None, 'end': d|None}]
  ['direct',  [[date, units], ...], [[date, units], ...] (optional set_units batch)]
  ['fixed',   units, start|None, end|None]
  ['num', x]                      (only as right operand: cal <op> number)
  ['add'|'sub'|'mul'|'div'|'or', a, b]
"""
import vf.env  # noqa: F401
from vf.env import REAL, day
from pjplan import WeeklyCalendar, DirectCalendar, FixedCalendar


class Undefined(Exception):
    """the statement defines no value (division by a calendar that is 0 on that date)"""


def build(ast, keep=None, reg=None):
    """keep: optional list that receives the mutable containers handed to the constructors (the caller's own objects);
    reg: optional list that receives (sub-expression, calendar object) for every calendar built on the way"""
    c_ = _build(ast, keep, reg)
    if reg is not None and ast[0] != 'num':
        reg.append((ast, c_))
    return c_


def _build(ast, keep, reg):
    k = ast[0]

    def mine(c):
        if keep is not None:
            keep.append(c)
        return c
    if k == 'never':   # zero capacity on every day (C14 class "resource never becomes available")
        return {'weekly-empty': lambda: WeeklyCalendar(days=[], units_per_day=8),
                'fixed-zero': lambda: FixedCalendar(0),
                'direct-empty': lambda: DirectCalendar()}[ast[1]]()
    if k == 'weekly':
        a = ast[1]
        return WeeklyCalendar(start=a.get('start'), end=a.get('end'), days=mine(list(a['days'])), units_per_day=a['units'])
    if k == 'weeklyd':
        a = ast[1]
        return WeeklyCalendar(start=a.get('start'), end=a.get('end'), units_per_day=mine({int(k_): v for k_, v in a['map'].items()}))
    if k == 'direct':
        c = DirectCalendar(mine({d: u for d, u in ast[1]}))
        if len(ast) > 2 and ast[2]:
            c.set_units(mine({d: u for d, u in ast[2]}))
        return c
    if k == 'fixed':
        return FixedCalendar(ast[1], ast[2], ast[3])
    if k == 'num':
        return ast[1]
    a, b = build(ast[1], keep, reg), build(ast[2], keep, reg)
    if k == 'add':
        return a + b
    if k == 'sub':
        return a - b
    if k == 'mul':
        return a * b
    if k == 'div':
        return a / b
    if k == 'or':
        return a | b
    raise KeyError(k)


def ev(ast, d):
    """reference value (None = no information)"""
    k = ast[0]
    if k == 'never':
        return 0
    if k in ('weekly', 'weeklyd'):
        a = ast[1]
        if a.get('start') is not None and d < a['start']:
            return None
        if a.get('end') is not None and d > a['end']:
            return None
        if k == 'weekly':
            return a['units'] if d.weekday() in a['days'] else 0
        return {int(k_): v for k_, v in a['map'].items()}.get(d.weekday(), 0)
    if k == 'direct':
        m = {}
        for dd, u in ast[1]:
            m[day(dd)] = u
        if len(ast) > 2 and ast[2]:
            for dd, u in ast[2]:
                m[day(dd)] = u
        return m.get(day(d))
    if k == 'fixed':
        if ast[2] is not None and d < ast[2]:
            return 0
        if ast[3] is not None and d > ast[3]:
            return 0
        return ast[1]
    if k == 'num':
        return ast[1]
    a, b = ev(ast[1], d), ev(ast[2], d)
    if k == 'or':
        if a is not None and a > 0:
            return a
        if b is not None and b > 0:
            return b
        return None
    if a is None and b is None:
        return None
    if k == 'sub':
        if a is None:
            r = b
        elif b is None:
            r = a
        else:
            r = a - b
        return None if r < 0 else r
    if a is None:
        return b
    if b is None:
        return a
    if k == 'add':
        return a + b
    if k == 'mul':
        return a * b
    if k == 'div':
        if b == 0:
            raise Undefined()
        return a / b
    raise KeyError(k)


def evs(ast, d):
    """Set-valued reference: every value the sentence of C17 admits for (expression, date).  The statement leaves three
    things open -- a leaf calendar outside its validity yields "none/zero", a negative difference means "no capacity"
    (None or 0), and `|` without a positive operand -- so each of them contributes both readings.  Raises Undefined when
    some admissible reading divides by a calendar that is 0 on that date."""
    k = ast[0]
    if k == 'never':
        return {0, None}
    if k in ('weekly', 'weeklyd'):
        a = ast[1]
        if (a.get('start') is not None and d < a['start']) or (a.get('end') is not None and d > a['end']):
            return {None, 0}
        return {ev(ast, d)}
    if k == 'direct':
        v = ev(ast, d)
        return {None, 0} if v is None else {v}
    if k == 'fixed':
        if (ast[2] is not None and d < ast[2]) or (ast[3] is not None and d > ast[3]):
            return {None, 0}
        return {ast[1]}
    if k == 'num':
        return {ast[1]}
    A, B = evs(ast[1], d), evs(ast[2], d)
    out = set()
    for a in A:
        for b in B:
            if k == 'or':
                if a is not None and a > 0:
                    out.add(a)
                elif b is not None and b > 0:
                    out.add(b)
                else:
                    out.update({None, 0})
                continue
            if a is None and b is None:
                out.add(None)
                continue
            if k == 'sub':
                r = b if a is None else a if b is None else a - b
                if r < 0:
                    out.update({None, 0})
                else:
                    out.add(r)
                continue
            if a is None:
                out.add(b)
            elif b is None:
                out.add(a)
            elif k == 'add':
                out.add(a + b)
            elif k == 'mul':
                out.add(a * b)
            elif k == 'div':
                if b == 0:
                    raise Undefined()
                out.add(a / b)
    return out


def caps(ast, d):
    """admissible resource-level capacities (None -> 0)"""
    return {0 if v is None else v for v in evs(ast, d)}


def cap(ast, d):
    """resource-level capacity: 0 where the calendar has no information; default calendar when ast is None"""
    if ast is None:
        return 8 if d.weekday() < 5 else 0
    v = ev(ast, d)
    return 0 if v is None else v


def shape(ast):
    k = ast[0]
    if k == 'never':
        return 'never:' + ast[1]
    if k in ('weekly', 'weeklyd'):
        return k + ('[' if ast[1].get('start') else '(') + (']' if ast[1].get('end') else ')')
    if k == 'direct':
        return 'direct' + ('+set' if len(ast) > 2 and ast[2] else '')
    if k == 'fixed':
        return 'fixed' + ('[' if ast[2] else '(') + (']' if ast[3] else ')')
    if k == 'num':
        return 'num'
    return f'{k}({shape(ast[1])},{shape(ast[2])})'


# ------------------------------------------------------------------------------------------
# generators
# ------------------------------------------------------------------------------------------
UNITS = [1, 2, 4, 8, 0.5, 2.5, 7.25, 16, 0.25, 6]
UNITS_DEC = [1, 8, 0.5, 7.3, 0.9, 2.1]


def _eod(d):
    return REAL(d.year, d.month, d.day, 23, 59, 59, 999999)


def gen_sched_calendar(rnd, base, decimal=False):
    """day-consistent calendars for the scheduler oracles (D3): validity bounds at 00:00 / 23:59:59.999999,
    capacity never runs out (every AST has an unbounded weekly component or is OR-ed with one)."""
    from vf.env import td
    b0 = day(base)
    k = rnd.random()
    if k < 0.22:
        return ['weekly', {'days': sorted(rnd.sample(range(7), rnd.randint(1, 6))), 'units': rnd.choice(UNITS_DEC if decimal else UNITS)}]
    if k < 0.40:
        m = {str(d): rnd.choice([0, 1, 3, 8, 0.25, 2.5]) for d in rnd.sample(range(7), rnd.randint(1, 7))}
        m[str(rnd.randrange(7))] = rnd.choice([1, 8, 2.5])
        return ['weeklyd', {'map': m}]
    if k < 0.60:
        dates = [[b0 + td(days=rnd.randint(-40, 40)), rnd.choice([0, 0, 1, 2.5, 8, 16, 0.75])] for _ in range(rnd.randint(1, 25))]
        extra = [[b0 + td(days=rnd.randint(-10, 20)), rnd.choice([0, 3, 5.5])] for _ in range(rnd.randint(0, 3))] if rnd.random() < 0.3 else []
        fallback = ['weekly', {'days': rnd.choice([[0, 2, 4], [0, 1, 2, 3, 4], [5, 6]]), 'units': rnd.choice([4, 8, 1.5])}]
        return ['or', ['direct', dates, extra], fallback]
    if k < 0.72:
        return ['mul', ['weekly', {'days': [0, 1, 2, 3, 4], 'units': 8}], ['num', rnd.choice([0.5, 1.5, 2, 0.25])]]
    if k < 0.86:
        s_ = b0 - td(days=rnd.randint(0, 10))
        e_ = _eod(b0 + td(days=rnd.randint(0, 20)))
        return ['sub', ['weekly', {'days': [0, 1, 2, 3, 4, 5], 'units': rnd.choice([6, 8])}],
                ['fixed', rnd.choice([1, 2, 6, 8, 9]), s_, e_]]
    if k < 0.93:
        # bounded weekly period OR-ed with an unbounded one (capacity changes over time)
        s_ = b0 + td(days=rnd.randint(-5, 10))
        e_ = _eod(s_ + td(days=rnd.randint(0, 15)))
        return ['or', ['weekly', {'days': [0, 1, 2, 3, 4, 5, 6], 'units': rnd.choice([2, 12]), 'start': s_, 'end': e_}],
                ['weekly', {'days': [0, 1, 2, 3, 4], 'units': rnd.choice([8, 3.5])}]]
    return ['add', ['weekly', {'days': [0, 1, 2, 3, 4], 'units': rnd.choice([4, 8])}],
            ['or', ['direct', [[b0 + td(days=rnd.randint(-5, 25)), rnd.choice([2, 4, 0.5])] for _ in range(rnd.randint(1, 8))]], ['num', 0]]]
