"""Exhaustive small-scope layer of W-SCHED (thorough tier): every forest on <=4 tasks (parent index < own index) x every
set of <=3 dependency links between tasks that are not ancestor/descendant of each other x a few fixed attribute patterns.
The random workload samples traversal orders; this layer walks all of them for small plans (the order in which the
recursive passes reach a task decides whether inherited constraints are applied -- F-S1)."""
import itertools

from vf.env import REAL, td
from vf import sched

EST = [8, 4, 12, 2]
PATTERNS = [
    # (resources per task index, calendars, min_start on task?, milestone on last leaf?)
    dict(res=[None, None, None, None], cals={'<none>': ['weekly', {'days': [0, 1, 2, 3, 4], 'units': 8}]}),
    dict(res=['A', 'B', 'A', 'B'], cals={'A': ['weekly', {'days': [0, 1, 2, 3, 4], 'units': 8}], 'B': ['weekly', {'days': [0, 2, 4], 'units': 4}]}),
    dict(res=['A', 'A', 'A', 'A'], cals={'A': ['weekly', {'days': [0, 1, 2, 3, 4, 5], 'units': 6}]}, milestone_last=True),
    dict(res=[None, 'A', None, 'A'], cals={'<none>': 'missing', 'A': ['weekly', {'days': [1, 3], 'units': 16}]}, min_start=True),
]


def shapes(n):
    """parent vectors: parent[i] in {None, 0..i-1}"""
    for ps in itertools.product(*[[None] + list(range(i)) for i in range(n)]):
        yield list(ps)


def cases(direction, n_max=4, max_links=3):
    for n in range(1, n_max + 1):
        for parents in shapes(n):
            shadow = [{'parent': p} for p in parents]
            pairs = [(a, b) for a in range(n) for b in range(n) if a != b
                     and a not in sched.ancestors_of(shadow, b) and b not in sched.ancestors_of(shadow, a)]
            for k in range(0, max_links + 1):
                for links in itertools.combinations(pairs, k):
                    links = [list(x) for x in links]
                    if sched.plain_cycle(shadow, links):
                        continue
                    yield n, parents, links


def make(direction, n, parents, links, pat_idx, balance, now_kind):
    pat = PATTERNS[pat_idx % len(PATTERNS)]
    base = REAL(2026, 1, 5) if direction == 'fwd' else REAL(2026, 2, 6, 0, 0)
    if pat_idx % 3 == 2:
        base = base + td(hours=10)
    tasks = []
    ch = {i: [k for k in range(n) if parents[k] == i] for i in range(n)}
    for i in range(n):
        tasks.append({'id': i + 1, 'name': f't{i + 1}', 'parent': parents[i], 'estimate': EST[i % len(EST)] + (i // len(EST)), 'spent': 1 if i == 2 else None,
                      'resource': pat['res'][i % len(pat['res'])], 'milestone': False, 'min_start': None, 'start': None, 'end': None, 'attrs': {}})
    leaves = [i for i in range(n) if not ch[i]]
    if pat.get('milestone_last') and leaves:
        tasks[leaves[-1]]['milestone'] = True
    if pat.get('min_start') and direction == 'fwd' and leaves:
        tasks[leaves[0]]['min_start'] = base + td(days=3)
    resources = {k: v for k, v in pat['cals'].items() if any(sched.rname(t['resource']) == k for t in tasks)}
    if direction == 'fwd':
        now = {'early': REAL(2020, 1, 1), 'same': base, 'late': base + td(days=2, hours=11)}[now_kind]
    else:
        now = REAL(2020, 1, 1)
    klass = 'wellformed' if not sched.effective_cycle(tasks, links) else 'unschedulable'
    return {'kind': 'sched', 'tasks': tasks, 'links': links, 'externals': [], 'resources': resources, 'dir': direction, 'date': base,
            'now': now, 'balance': balance, 'default_estimate': 0, 'class': klass, 'decimal': False, 'assemble': 'attached' if pat_idx % 2 == 0 else 'detached-first'}
