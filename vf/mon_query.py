"""C18: task queries and bulk operations (DESIGN 5/C18).

A reference evaluator of the filter language is compared with `lst(**filters)` / `lst(callable)`
on lists of every kind (WBS.tasks, roots, children, query results); snapshots around the call
show that queries change nothing, that bulk assignment touches exactly the selection and that
remove_all removes exactly the matching tasks with their subtrees."""
import operator
import re

import vf.env  # noqa: F401
from vf.env import REAL, td
from vf import core, graph
from vf.graph import Universe, snap, diff, reach

META = {
    'C18': dict(level='exploration', required=['queries', 'bulk_assignments', 'remove_all_calls', 'callable_queries', 'comparison_on_missing_attr',
                                               'estimate_spent_filters', 'nonempty_proper_selections'],
                rule='forests of 1-9 tasks in a WBS with attributes id, parent_id, name, resource, start, end, milestone, min_start, '
                     'estimate, spent and custom attributes (absent / None / present); queries with 1-3 keyword filters over all '
                     'suffixes (_in_, _not_in_, _is_none_, _is_not_none_, _ne_, _lt_, _le_, _gt_, _ge_, _like_, _not_like_, plain), '
                     'callables, callable+keywords, on WBS.tasks / roots / children / earlier results; result compared (order, '
                     'identity) with the reference evaluator, whole-universe snapshot equal around the query; bulk assignment and '
                     'remove_all / WBS.remove_all judged by snapshot difference. evaluations = calls judged; non-trivial = '
                     'selection that is neither empty nor everything; distinct = (sorted filter kinds, list kind, selection class)',
                assumptions=['a task "lacks" an attribute when it is absent or None', 'filter values typed so that comparisons are legal',
                             '_is_none_/_is_not_none_ always passed True']),
}
SUFFIXES = ['_not_like_', '_like_', '_not_in_', '_is_not_none_', '_is_none_', '_in_', '_ne_', '_le_', '_lt_', '_ge_', '_gt_']
OPS = {'_ne_': operator.ne, '_le_': operator.le, '_lt_': operator.lt, '_ge_': operator.ge, '_gt_': operator.gt}
D0 = REAL(2026, 1, 5)


def dec(v):
    """case values that JSON cannot carry: {'$fs': [...]} is a frozenset (a partially ordered value), {'$nan': 1} is float('nan')
    (a number that satisfies no comparison)"""
    if isinstance(v, dict) and set(v) == {'$fs'}:
        return frozenset(v['$fs'])
    if isinstance(v, dict) and set(v) == {'$nan'}:
        return NAN
    if isinstance(v, list):
        return [dec(x) for x in v]
    return v


NAN = float('nan')


def getv(t, k):
    if k == 'id':
        return t.id
    if k == 'parent_id':
        return t.parent.id if t.parent else None
    if k in ('estimate', 'spent'):
        return getattr(t, k)
    v = getattr(t, k, None)
    return None if callable(v) else v


def ref(t, k, v):
    for suf in SUFFIXES:
        if k.endswith(suf):
            a = getv(t, k[:-len(suf)])
            if suf == '_not_like_':
                return a is not None and not re.search(v, a)
            if suf == '_like_':
                return a is not None and bool(re.search(v, a))
            if suf == '_not_in_':
                return a not in v
            if suf == '_in_':
                return a in v
            if suf == '_is_none_':
                return a is None
            if suf == '_is_not_none_':
                return a is not None
            if a is None:
                return False
            return OPS[suf](a, v)
    return getv(t, k) == v


def gen_world(rnd):
    n = rnd.randint(1, 9)
    tasks = []
    base = 0 if rnd.random() < 0.3 else 1          # a plan numbered from 0: the first task (often the parent of all others) has a falsy id
    for k in range(n):
        kw = {'id': k + base, 'name': rnd.choice([None, 'alpha', 'beta', 'ab', 'x1']), 'resource': rnd.choice([None, 'R1', 'R2']),
              'estimate': rnd.choice([None, 0, 1, 2.5, 8]), 'spent': rnd.choice([None, 0, 1, 3]), 'milestone': rnd.random() < 0.2}
        if rnd.random() < 0.5:
            kw['start'] = D0 + td(days=rnd.randint(0, 5))
        if rnd.random() < 0.3:
            kw['end'] = D0 + td(days=rnd.randint(4, 9))
        if rnd.random() < 0.3:
            kw['min_start'] = D0 + td(days=rnd.randint(0, 3))
        if rnd.random() < 0.6:
            kw['tag'] = rnd.choice([None, 'x', 'yy', 'xy'])
        if rnd.random() < 0.5:
            kw['prio'] = rnd.choice([None, 1, 2, 3])
        if rnd.random() < 0.4:
            kw['iteration'] = rnd.choice([None, 1, 2, 3])
        if rnd.random() < 0.3:
            kw['region'] = rnd.choice([None, 'x', 'alpha'])
        if rnd.random() < 0.2:
            kw['kpi_'] = rnd.choice([1, 2])
        if rnd.random() < 0.12:
            kw['clone'] = rnd.choice([None, 'x', 'alpha'])      # a user attribute that happens to carry the name of a Task method
        if rnd.random() < 0.25:
            # values that are only partially ordered (sets) or not ordered at all (NaN): "a >= b" is false and so is "a < b"
            kw['grp'] = rnd.choice([None, {'$fs': []}, {'$fs': [1]}, {'$fs': [1, 2]}, {'$fs': [2, 3]}, {'$fs': [1, 2, 3]}])
        if rnd.random() < 0.1:
            kw['score'] = rnd.choice([{'$nan': 1}, 1, 2.5, None])
        tasks.append(kw)
    parents = [None if (k == 0 or rnd.random() < 0.45) else rnd.randrange(k) for k in range(n)]
    detached = [rnd.random() < 0.1 for _ in range(n)]
    # dependency lists are task lists too: links between the tasks, and now and then a task outside the WBS that carries
    # the id of a member (a copy kept from another plan) linked next to that member
    links = []
    for _ in range(rnd.randint(0, n)):
        a, b = rnd.randrange(n), rnd.randrange(n)
        if a != b:
            links.append([a, b])
    if n >= 2 and rnd.random() < 0.3:
        for _ in range(rnd.randint(1, 2)):
            j = rnd.randrange(n)
            tw = dict(tasks[j], name=rnd.choice(['alpha', 'copy', None]), tag=rnd.choice(['x', 'q']))
            tasks.append(tw)
            parents.append(None)
            detached.append(True)
            i = rnd.choice([k for k in range(n) if k != j])
            links.append([i, len(tasks) - 1])
            links.append([i, j])
    return {'tasks': tasks, 'wbs': 1, 'parents': parents, 'detached': detached, 'links': links, 'parents_n': list(range(n))}


def build(world):
    u = Universe({'tasks': [{k_: dec(v_) for k_, v_ in kw_.items()} for kw_ in world['tasks']], 'wbs': world['wbs']})
    w = u.wbss[0]
    for i, p in enumerate(world['parents']):
        t = u.tasks[i]
        try:
            if p is None:
                if not world['detached'][i]:
                    w.roots.append(t)
            else:
                u.tasks[p].children.append(t)
        except RuntimeError:
            pass
    for a, b in world.get('links') or []:
        try:
            u.tasks[a].predecessors.append(u.tasks[b])
        except RuntimeError:
            pass
    return u


def gen_filters(rnd):
    kw = {}
    for _ in range(rnd.randint(1, 3)):
        attr = rnd.choice(['id', 'parent_id', 'name', 'resource', 'estimate', 'spent', 'milestone', 'tag', 'prio', 'nope', 'start', 'min_start', 'end', 'iteration', 'region', 'kpi_', 'clone', 'grp', 'score'])
        num = attr in ('id', 'parent_id', 'estimate', 'spent', 'prio', 'iteration', 'kpi_', 'score')
        setv = attr == 'grp'
        strv = attr in ('name', 'resource', 'tag', 'region', 'clone')
        date = attr in ('start', 'end', 'min_start')
        kinds = ['', '_in_', '_not_in_', '_is_none_', '_is_not_none_', '_ne_'] + (['_lt_', '_le_', '_gt_', '_ge_'] * (3 if setv else 1) if num or date or setv else []) + \
            (['_like_', '_not_like_'] if strv else [])
        kind = rnd.choice(kinds)
        if kind in ('_is_none_', '_is_not_none_'):
            v = True
        elif kind in ('_in_', '_not_in_'):
            v = rnd.sample([None, 1, 2, 3, 'x', 'alpha', 'R1', 0, 2.5, True, 8, 'ab'], 3)
        elif kind in ('_like_', '_not_like_'):
            v = rnd.choice(['a', '^a', 'x$', 'R\\d', 'b|y', 'alpha', '^x', '1'])
        elif setv:
            v = rnd.choice([{'$fs': []}, {'$fs': [1]}, {'$fs': [2]}, {'$fs': [1, 2]}, {'$fs': [2, 3]}, {'$fs': [1, 2, 3]}])
        elif num:
            v = rnd.choice([0, 1, 2, 2.5, 3, 8] + ([{'$nan': 1}] if attr == 'score' else []))
        elif date:
            v = D0 + td(days=rnd.randint(0, 8))
        elif attr == 'milestone':
            v = rnd.choice([True, False])
        elif kind == '_ne_':
            v = rnd.choice(['x', 'alpha', 'R1', 'ab'])
        else:
            v = rnd.choice([None, 'x', 'alpha', 'R1', 'ab', 'yy'])
        kw[attr + kind] = v
    return kw


def kinds_of(kw):
    out = []
    for k in kw:
        for suf in SUFFIXES:
            if k.endswith(suf):
                out.append(suf)
                break
        else:
            out.append('=')
    return sorted(out)


def pick_list(u, step):
    w = u.wbss[0]
    kind = step['list']
    if kind == 'wbs':
        return None, list(w.tasks)
    if kind == 'tasks':
        return w.tasks, list(w.tasks)
    if kind == 'roots':
        return w.roots, list(w.roots)
    if kind == 'children':
        t = u.tasks[step['of'] % len(u.tasks)]
        return t.children, list(t.children)
    if kind == 'result':
        r = w.tasks(lambda t: True)
        return r, list(r)
    if kind == 'all_children':
        t = u.tasks[step['of'] % len(u.tasks)]
        return t.all_children, list(t.all_children)
    if kind in ('predecessors', 'successors'):
        linked = [t for t in u.tasks if len(getattr(t, kind))] or u.tasks
        t = linked[step['of'] % len(linked)]
        u.link_holder = u.L(t)
        return getattr(t, kind), list(getattr(t, kind))
    raise KeyError(kind)


def judge(case, acc):
    u = build(case['world'])
    for step in case['steps']:
        lst, content = pick_list(u, step)
        kw = {k_: dec(v_) for k_, v_ in (step.get('kw') or {}).items()}
        ids = step.get('callable_ids')
        key = (lambda t, ids=ids: t.id in ids) if ids is not None else None
        exp = [t for t in content if (key is None or key(t)) and all(ref(t, k, v) for k, v in kw.items())]
        s0 = snap(u)
        op = step['op']
        kinds = kinds_of(kw)
        sel_class = 'empty' if not exp else 'all' if len(exp) == len(content) else 'proper'
        mech = ''
        if key is not None and kw:
            mech = '/callable+keywords'
        elif any(k.split('_')[0] in ('estimate', 'spent') for k in kw):
            mech = '/estimate-spent'
        acc.ev()
        if sel_class == 'proper':
            acc.count('nonempty_proper_selections')
            acc.sig(kinds, key is not None, step['list'], op, min(len(exp), 3))
        if any(k.split('_')[0] in ('estimate', 'spent') for k in kw):
            acc.count('estimate_spent_filters')
        if key is not None:
            acc.count('callable_queries')
        for k, v in kw.items():
            for s_ in OPS:
                if k.endswith(s_) and s_ != '_ne_':
                    vals = [getv(t, k[:-len(s_)]) for t in content]
                    if any(a is not None and not OPS[s_](a, v) and not OPS[{'_lt_': '_ge_', '_le_': '_gt_', '_gt_': '_le_', '_ge_': '_lt_'}[s_]](a, v) for a in vals):
                        acc.count('comparisons_on_unordered_values')
        for k in kw:
            for s_ in SUFFIXES:
                if k.endswith(s_) and (s_ in OPS or 'like' in s_) and any(getv(t, k[:-len(s_)]) is None for t in content):
                    acc.count('comparison_on_missing_attr')
        if op == 'bulk_rel':
            # assignment through a live dependency view: every task of the list gets the value -- also when carrying it out
            # edits the very list that is being walked (x.successors.predecessors = [y] takes the tasks out of x.successors)
            acc.count('bulk_relation_assignments')
            rel = step['attr']
            val = [u.tasks[k % len(u.tasks)] for k in step['value']]
            model = s0
            ok_model = True
            for t in content:
                try:
                    outs, _ = graph.expected(model, ['preds=' if rel == 'predecessors' else 'succs=', u.L(t), [u.L(v) for v in val], 'list'])
                except Exception:
                    outs = None
                if not outs or graph.invariants(outs[0]):
                    ok_model = False
                    break
                model = outs[0]
            try:
                setattr(lst, rel, list(val))
                outcome = 'ok'
            except Exception as e:
                outcome = type(e).__name__
            s1 = snap(u)
            one = {'kind': 'query', 'world': case['world'], 'steps': [step]}
            if ok_model and outcome != 'ok':
                acc.violation(f'C18/bulk-relation-raised-{outcome}', f'{step["list"]}.{rel} = {[t.id for t in val]} raised {outcome} although every single assignment is legal', one)
            elif ok_model and graph.setlevel(s1) != graph.setlevel(model):
                acc.violation('C18/bulk-assignment-effect/relation', f'{step["list"]}.{rel} = {[t.id for t in val]} on {[t.id for t in content]}: {diff(model, s1)}', one)
            continue
        if step.get('in_form'):
            # any container works for membership: a frozenset, a tuple, the keys of a dict
            conv = {'frozenset': frozenset, 'tuple': tuple, 'dictkeys': lambda v_: {x_: 1 for x_ in v_}.keys()}[step['in_form']]
            try:
                kw = {k_: (conv(v_) if k_.endswith(('_in_', '_not_in_')) and isinstance(v_, list) else v_) for k_, v_ in kw.items()}
                acc.count('membership_filters_with_other_containers')
            except TypeError:
                pass       # unhashable members: keep the list
        try:
            if op == 'query':
                acc.count('queries')
                got = lst(key, **kw) if key is not None else lst(**kw)
                got_l = list(got)
            elif op == 'bulk':
                acc.count('bulk_assignments')
                got = lst(key, **kw) if key is not None else lst(**kw)
                got_l = list(got)
                setattr(got, step['attr'], step['value'])
            elif op == 'remove_all':
                acc.count('remove_all_calls')
                if step['list'] == 'wbs':
                    got_l = list(u.wbss[0].remove_all(key, **kw))
                else:
                    got_l = list(lst.remove_all(key, **kw))
            outcome = 'ok'
        except Exception as e:
            outcome = type(e).__name__
            err = e
        s1 = snap(u)
        one = {'kind': 'query', 'world': case['world'], 'steps': [step]}
        if outcome != 'ok':
            acc.violation(f'C18/{op}-raised-{outcome}/{"+".join(kinds)}', f'{op} {kw} raised {outcome}: {str(err)[:80]}', one)
            continue
        if [id(t) for t in got_l] != [id(t) for t in exp]:
            acc.violation(f'C18/{op}-selection/{"+".join(kinds)}{mech}',
                          f'{op} on {step["list"]} with {kw}{" + callable" if key else ""} -> ids {[t.id for t in got_l]}, reference {[t.id for t in exp]}', one)
            continue
        if op == 'query':
            if s1 != s0:
                acc.violation('C18/query-changed-state', f'query {kw} changed: {diff(s0, s1)}', one)
        elif op == 'bulk':
            want = _with_attr(s0, [u.L(t) for t in exp], step['attr'], step['value'])
            if s1 != want:
                acc.violation('C18/bulk-assignment-effect', f'assigning {step["attr"]}={step["value"]!r} on {[t.id for t in exp]}: {diff(want, s1)}', one)
        elif op == 'remove_all' and step['list'] in ('predecessors', 'successors'):
            # on a dependency list "removes" means: takes the matching tasks out of that list (both ends of each link)
            import copy
            want = copy.deepcopy(s0)
            mine, theirs = ('preds', 'succs') if step['list'] == 'predecessors' else ('succs', 'preds')
            holder = u.link_holder
            for t in exp:
                lab = u.L(t)
                want['T'][holder][mine] = [x for x in want['T'][holder][mine] if x != lab]
                want['T'][lab][theirs] = [x for x in want['T'][lab][theirs] if x != holder]
            if graph.setlevel(s1) != graph.setlevel(want):
                acc.violation('C18/remove_all-effect/' + step['list'], f'{step["list"]}.remove_all {kw} (matching {[t.id for t in exp]}): {diff(want, s1)}', one)
        elif op == 'remove_all':
            want = _removed(s0, [u.L(t) for t in exp], u, step['list'] == 'wbs')
            if graph.setlevel(s1) != graph.setlevel(want):
                acc.violation('C18/remove_all-effect', f'remove_all {kw} (matching {[t.id for t in exp]}): {diff(want, s1)}', one)


def _with_attr(s0, labs, attr, val):
    import copy
    s = copy.deepcopy(s0)
    for lab in labs:
        d = dict(s['T'][lab]['attrs'])
        d[attr] = repr(val)
        s['T'][lab]['attrs'] = tuple(sorted(d.items()))
    return s


def _removed(s0, labs, u, from_wbs):
    import copy
    s = copy.deepcopy(s0)
    for lab in labs:
        if from_wbs:
            # WBS.remove_all: a match whose ancestor was removed before it is no longer a member and stays in that subtree
            if s['T'][lab]['owner'] is not None and lab in reach(s, s['R'][s['T'][lab]['owner']]):
                graph.m_release(s, lab)
        else:
            graph.m_release(s, lab)
    return s


def gen_case(rnd):
    world = gen_world(rnd)
    steps = []
    for _ in range(6):
        r = rnd.random()
        step = {'list': rnd.choice(['tasks', 'tasks', 'roots', 'children', 'result', 'all_children', 'predecessors', 'successors']), 'of': rnd.randrange(9), 'op': 'query'}
        mode = rnd.random()
        if mode < 0.06:
            pass                       # no filter at all: lst() / remove_all() select everything
        elif mode < 0.7:
            step['kw'] = gen_filters(rnd)
        elif mode < 0.85:
            step['callable_ids'] = sorted(rnd.sample(range(1, 10), rnd.randint(0, 5)))
        else:
            step['callable_ids'] = sorted(rnd.sample(range(1, 10), rnd.randint(1, 6)))
            step['kw'] = gen_filters(rnd)
        if step['list'] in ('predecessors', 'successors') and len(world['tasks']) > len(world['parents_n']) and rnd.random() < 0.4:
            # the one filter everybody writes: id=...; on a dependency list two different tasks may carry that id
            step.pop('callable_ids', None)
            step['kw'] = {'id': world['tasks'][-1]['id']}
        if any(k_.endswith(('_in_', '_not_in_')) for k_ in step.get('kw') or {}) and rnd.random() < 0.4:
            step['in_form'] = rnd.choice(['frozenset', 'tuple', 'dictkeys'])
        if step['list'] in ('predecessors', 'successors') and rnd.random() < 0.2:
            step['op'] = 'bulk_rel'
            step['attr'] = rnd.choice(['predecessors', 'successors'])
            step['value'] = [rnd.randrange(20) for _ in range(rnd.choice([0, 1, 1, 2]))]
            step.pop('kw', None)
            step.pop('callable_ids', None)
            steps.append(step)
            continue
        if r < 0.15:
            step['op'] = 'bulk'
            step['attr'] = rnd.choice(['tag', 'prio', 'name', 'resource', 'flag', 'iteration'])
            step['value'] = rnd.choice({'tag': ['z', None, 'x'], 'prio': [5, None, 1], 'name': ['alpha', 'zz', None],
                                        'resource': ['R1', None, 'R9'], 'flag': ['z', 5, None, True], 'iteration': [2, None, 7]}[step['attr']])
        elif r < 0.3:
            step['op'] = 'remove_all'
            step['list'] = rnd.choice(['roots', 'children', 'wbs', 'predecessors', 'successors'])
        steps.append(step)
    return {'kind': 'query', 'world': world, 'steps': steps}


def run_shard(prop, tier, seed, shard, nshards, budget, acc):
    idx = 0
    while budget.more():
        rnd = core.case_rng(seed, shard, idx, 'query')
        idx += 1
        case = gen_case(rnd)
        judge(case, acc)
        acc.cases += 1
        if idx <= 2:
            acc.sample({'tasks': case['world']['tasks'][:4], 'parents': case['world']['parents'], 'steps': case['steps'][:3]})


def run_case(prop, case, acc):
    judge(case, acc)
    acc.cases += 1
