"""C13: write_csv / read_csv round trip (DESIGN 5/C13).

Monitors: (1) model comparison of w and read_csv(write_csv(w)); (2) byte fixpoint of the second and
third generation files; (3) shape of the written file against the documented layout, parsed by an
independent csv reader; (4) an independent reference writer (LF/CRLF, BOM, quoting, custom columns
in any order) exercising the reader alone.
"""
import csv
import io
import os
import shutil
import tempfile

import vf.env  # noqa: F401
from vf.env import REAL, td
from vf import core
from pjplan import Task, WBS, read_csv, write_csv

HERE = os.path.dirname(os.path.dirname(os.path.abspath(__file__)))
DEFAULT = ['id', 'name', 'resource', 'start', 'end', 'estimate', 'spent', 'milestone', 'parent_id', 'predecessor_ids']
META = {
    'C13': dict(level='exploration', required=['roundtrips', 'hand_written_files', 'adversarial_text_cases', 'id_zero_parent_cases', 'min_start_cases'],
                rule='WBSs built through the API (depth <=5, ids incl. 0 and negatives also as parents/predecessors, adversarial '
                     'text in name/resource/custom values: delimiter, quotes, CR, LF, NUL-free control chars, BOM char, non-ASCII, '
                     'sparse custom attributes, 2-decimal fractions, dates 1969..2068, min_start, milestones): w vs '
                     'read_csv(write_csv(w)) field by field, 2nd vs 3rd generation file byte for byte, written file parsed by an '
                     'independent csv reader against the documented layout, and hand-written files from an independent reference '
                     'writer (LF/CRLF, BOM, minimal/full quoting, custom columns in any order) read back. evaluations = WBS '
                     'comparisons; non-trivial = WBS with hierarchy or links or adversarial text; distinct = (shape, text classes, '
                     'features)',
                assumptions=['content expressible in the format: integer ids, dependencies inside the WBS, dates at day precision '
                             '1969-2068, custom attribute names that are identifiers not colliding with dir(Task) or the ten columns',
                             'absent/None text == empty string; custom values compare as strings',
                             'NUL characters are excluded (the csv module of the standard library does not round-trip them)']),
}
CHARS = list('ab Z09') + list(';"\'\n\r,\t') + list('éЖ日✓﻿ =+-@|\\')
CUSTOM_NAMES = ['note', 'owner_x', 'prio', 'Team', 'x1']


def rtext(rnd):
    r = rnd.random()
    if r < 0.12:
        return rnd.choice([None, ''])
    if r < 0.2:
        return rnd.choice(['plain name', 'True', 'False', '0', ' lead', 'trail ', '"', '""', ';', '\n', '\r\n', 'a;b', 'a"b', "it's", '﻿x', 'x\r'])
    return ''.join(rnd.choice(CHARS) for _ in range(rnd.randint(1, 8)))


def text_classes(s):
    out = set()
    if s is None:
        return out
    s = str(s)
    for ch, name in ((';', 'delim'), ('"', 'quote'), ('\n', 'LF'), ('\r', 'CR'), ('﻿', 'BOM')):
        if ch in s:
            out.add(name)
    if any(ord(c) > 127 for c in s):
        out.add('non-ascii')
    if s != s.strip():
        out.add('edge-space')
    return out


def gen_model(rnd, tier='quick'):
    n = rnd.randint(1, 9)
    ids = rnd.sample(range(-3, 12), n)
    if rnd.random() < 0.35 and 0 not in ids:
        ids[0] = 0
    if rnd.random() < 0.25:
        # integer ids of any size: beyond the small-int cache, beyond what a float holds exactly, far negative
        big_ = rnd.sample([300, 1000, 257, -6, -1000, 10 ** 6, 2 ** 53 + 1, 2 ** 63 + 5, -(2 ** 53) - 3], min(n, rnd.randint(1, 4)))
        for j_, v_ in zip(rnd.sample(range(n), len(big_)), big_):
            ids[j_] = v_
    customs = rnd.sample(CUSTOM_NAMES, rnd.randint(0, 3))
    tasks = []
    for k in ids:
        d0 = REAL(1969, 1, 1) + td(days=rnd.randint(0, 36400))
        t = {'id': k, 'name': rtext(rnd), 'resource': rtext(rnd) if rnd.random() < 0.6 else None,
             'start': d0 if rnd.random() < 0.5 else None, 'end': d0 + td(days=rnd.randint(0, 30)) if rnd.random() < 0.4 else None,
             'estimate': rnd.choice([None, 0, 8, 2.5, 0.05, 12.75, 100, 1 / 3, 0.1 + 0.2, 1e-7, 123456.789012345, 2 / 3]),
             'spent': rnd.choice([None, None, 0, 1, 0.1, 3.25, 1 / 7, 1e-9]),
             'milestone': rnd.random() < 0.2, 'min_start': max(d0 - td(days=3), REAL(1969, 1, 1)) if rnd.random() < 0.25 else None,
             'parent': None, 'custom': {}}
        for c in customs:
            if rnd.random() < 0.6:
                t['custom'][c] = rnd.choice([rtext(rnd), 5, 1.5, True, None, 'v', d0 + td(days=2), REAL(2030, 3, 12, 8, 30)])
        if tasks and rnd.random() < 0.55:
            t['parent'] = rnd.randrange(len(tasks))
        tasks.append(t)
    if rnd.random() < 0.4 and 0 in ids and n > 1:
        # make sure the task with id 0 has a child now and then
        z = ids.index(0)
        cands = [i for i in range(n) if i > z and tasks[i]['parent'] is None]
        if cands:
            tasks[cands[0]]['parent'] = z
    links = []
    for _ in range(rnd.randint(0, 7)):
        if n < 2:
            break
        a, b = rnd.sample(range(n), 2)
        links.append([a, b])
    return {'kind': 'csv', 'tasks': tasks, 'links': links, 'delimiter': rnd.choice([None, None, None, ',', '\t', '|']),
            'edit_after_read': rnd.randrange(1000) if rnd.random() < 0.3 else None, 'then_empty': rnd.random() < 0.05}


def build(model):
    w = WBS()
    objs = []
    for t in model['tasks']:
        kw = dict(t['custom'])
        objs.append(Task(t['id'], t['name'], resource=t['resource'], start=t['start'], end=t['end'], estimate=t['estimate'],
                         spent=t['spent'], milestone=t['milestone'], min_start=t['min_start'], **kw))
    for i, t in enumerate(model['tasks']):
        (w.roots if t['parent'] is None else objs[t['parent']].children).append(objs[i])
    kept = []
    for a, b in model['links']:
        try:
            if objs[b] in list(objs[a].predecessors):
                continue
            objs[a].predecessors.append(objs[b])
            kept.append([a, b])
        except RuntimeError:
            pass
    return w, objs, kept


def norm_text(v):
    return '' if v is None else v


def norm_custom(v):
    return '' if v is None else str(v)


def describe(w, custom_names):
    """comparison form of a WBS through public getters, in WBS order"""
    out = []
    for t in w.tasks:
        out.append({
            'id': t.id, 'parent': t.parent.id if t.parent else None, 'children': [c.id for c in t.children],
            'preds': [p.id for p in t.predecessors], 'name': norm_text(t.name), 'resource': norm_text(t.resource),
            'start': t.start, 'end': t.end, 'estimate': t.estimate, 'spent': t.spent, 'milestone': t.milestone,
            'min_start': t.min_start, 'custom': {c: norm_custom(getattr(t, c, None)) for c in custom_names},
        })
    return out


def first_diff(a, b):
    if [x['id'] for x in a] != [x['id'] for x in b]:
        return 'ids/order', f"{[x['id'] for x in a]} -> {[x['id'] for x in b]}"
    for x, y in zip(a, b):
        for f in ('parent', 'children', 'preds', 'name', 'resource', 'start', 'end', 'estimate', 'spent', 'milestone', 'min_start'):
            if x[f] != y[f] or type(x[f]) is not type(y[f]) and f == 'milestone':
                return f, f"task {x['id']}.{f}: {x[f]!r} -> {y[f]!r}"
        for c in x['custom']:
            if x['custom'][c] != y['custom'].get(c, ''):
                return 'custom', f"task {x['id']}.{c}: {x['custom'][c]!r} -> {y['custom'].get(c)!r}"
    return None


class Work:
    def __init__(self):
        os.makedirs(os.path.join(HERE, '.work'), exist_ok=True)
        self.dir = tempfile.mkdtemp(prefix='csv_', dir=os.path.join(HERE, '.work'))

    def path(self, n):
        return os.path.join(self.dir, n)

    def close(self):
        shutil.rmtree(self.dir, ignore_errors=True)


def judge_roundtrip(model, acc, wk):
    try:
        w, objs, kept = build(model)
    except Exception as e:
        acc.count('unbuildable:' + type(e).__name__)
        return
    customs = sorted({c for t in model['tasks'] for c in t['custom']})
    a = describe(w, customs)
    classes = set()
    for t in model['tasks']:
        for v in [t['name'], t['resource']] + list(t['custom'].values()):
            classes |= text_classes(v)
    ids = [t['id'] for t in model['tasks']]
    zero_parent = any(t['parent'] is not None and model['tasks'][t['parent']]['id'] == 0 for t in model['tasks'])
    has_min = any(t['min_start'] is not None for t in model['tasks'])
    depth = 0
    for t in model['tasks']:
        d, p = 0, t['parent']
        while p is not None:
            d += 1
            p = model['tasks'][p]['parent']
        depth = max(depth, d)
    acc.ev()
    acc.count('roundtrips')
    if classes:
        acc.count('adversarial_text_cases')
    if zero_parent:
        acc.count('id_zero_parent_cases')
    if has_min:
        acc.count('min_start_cases')
    if any(i < 0 for i in ids):
        acc.count('negative_id_cases')
    if depth or kept or classes:
        acc.sig(min(len(ids), 6), depth, min(len(kept), 3), sorted(classes), zero_parent, has_min, len(customs))
    p1, p2, p3 = wk.path('a.csv'), wk.path('b.csv'), wk.path('c.csv')
    if model.get('delimiter'):
        # the delimiter is a parameter of both functions: a round trip with another one reproduces the WBS as well
        acc.count('other_delimiter_roundtrips')
        pd = wk.path('d.csv')
        try:
            write_csv(w, pd, delimiter=model['delimiter'])
            rd = read_csv(pd, delimiter=model['delimiter'])
            dd = first_diff(a, describe(rd, customs))
            if dd:
                acc.violation(f'C13/roundtrip-{dd[0]}/other-delimiter', f'round trip with delimiter {model["delimiter"]!r} differs: ' + dd[1], model)
        except Exception as e:
            acc.violation(f'C13/roundtrip-raised-{type(e).__name__}/other-delimiter', f'round trip with delimiter {model["delimiter"]!r} raised {type(e).__name__}: {str(e)[:100]}', model)
    step = 'write'
    try:
        write_csv(w, p1)
        step = 'read'
        r1 = read_csv(p1)
        step = 'write2'
        write_csv(r1, p2)
        step = 'read2'
        r2 = read_csv(p2)
        step = 'write3'
        write_csv(r2, p3)
    except Exception as e:
        acc.violation(f'C13/{step}-raised-{type(e).__name__}' + _mech(model, classes), f'{step} raised {type(e).__name__}: {str(e)[:120]}', model)
        return
    b = describe(r1, customs)
    d = first_diff(a, b)
    if d:
        mech = ''
        if d[0] in ('parent', 'ids/order', 'children') and zero_parent:
            mech = '/parent-id-0'
        acc.violation(f'C13/roundtrip-{d[0]}{mech}', 'read_csv(write_csv(w)) differs: ' + d[1], model)
    with open(p2, 'rb') as f2, open(p3, 'rb') as f3:
        if f2.read() != f3.read():
            acc.violation('C13/not-a-fixpoint', 'file written from the re-read WBS is not reproduced by a further read/write cycle', model)
    # a plan that was loaded from a file is edited and saved again: the file describes the plan as it is now
    if model.get('edit_after_read') is not None:
        ts = list(r1.tasks)
        k_ = model['edit_after_read']
        edited = None
        if len(ts) >= 2:
            x, y = ts[k_ % len(ts)], ts[(k_ // 7 + 1) % len(ts)]
            try:
                if k_ % 3 == 0 and x is not y:
                    x.parent = y if x.parent is not y else None
                    edited = 'reparent'
                elif k_ % 3 == 1 and len(x.predecessors):
                    x.predecessors.remove(x.predecessors[0])
                    edited = 'unlink'
                elif x is not y:
                    x.predecessors.append(y)
                    edited = 'link'
            except RuntimeError:
                edited = None
        if edited:
            acc.ev()
            acc.count('edits_after_read')
            pe = wk.path('e.csv')
            try:
                want = describe(r1, customs)
                write_csv(r1, pe)
                de = first_diff(want, describe(read_csv(pe), customs))
                if de:
                    acc.violation(f'C13/roundtrip-{de[0]}/after-{edited}-of-a-loaded-plan', f'a loaded plan was edited ({edited}) and saved again; reading that file back differs: ' + de[1], model)
            except Exception as e:
                acc.violation(f'C13/roundtrip-raised-{type(e).__name__}/after-{edited}-of-a-loaded-plan', f'saving/reading a loaded and edited plan raised {type(e).__name__}: {str(e)[:100]}', model)
    if model.get('then_empty'):
        # an empty plan is a plan: written over an earlier export it leaves a file that reads back empty
        acc.ev()
        acc.count('empty_plan_roundtrips')
        try:
            from pjplan import WBS as _WBS
            write_csv(_WBS(), p1)
            got_ = [t.id for t in read_csv(p1).tasks]
            if got_:
                acc.violation('C13/roundtrip-ids/order/empty-plan', f'an empty WBS written over an earlier export reads back with tasks {got_[:5]}', model)
        except Exception as e:
            acc.violation(f'C13/roundtrip-raised-{type(e).__name__}/empty-plan', f'round trip of an empty WBS raised {type(e).__name__}: {str(e)[:100]}', model)
        return
    # layout of the first file, parsed independently
    with open(p1, 'r', encoding='utf-8-sig', newline='') as f:     # a byte-order mark in front of the header is not excluded by C13
        rows = list(csv.reader(f, delimiter=';'))
    acc.ev()
    if not rows or rows[0][:10] != DEFAULT:
        acc.violation('C13/layout-header', f'header {rows[0] if rows else None}', model)
    elif sorted(rows[0][10:]) != sorted(set(customs) | ({'min_start'} if 'min_start' in rows[0][10:] else set())):
        acc.violation('C13/layout-custom-columns', f'custom columns {rows[0][10:]} vs attributes {customs}', model)
    elif len(rows) != 1 + len(a) or any(len(r) != len(rows[0]) for r in rows):
        acc.violation('C13/layout-row-count', f'{len(rows) - 1} rows for {len(a)} tasks / ragged rows', model)
    else:
        for r, t in zip(rows[1:], a):
            exp_pred = ';'.join(str(x) for x in t['preds'])
            exp_dates = [t['start'].strftime('%d.%m.%y') if t['start'] else '', t['end'].strftime('%d.%m.%y') if t['end'] else '']
            if r[0] != str(t['id']) or r[9] != exp_pred or r[3:5] != exp_dates or r[8] != ('' if t['parent'] is None else str(t['parent'])):
                if not (zero_parent and r[8] == ''):
                    acc.violation('C13/layout-row', f'row {r} for task {t["id"]} (preds {exp_pred!r}, dates {exp_dates}, parent {t["parent"]})', model)
                    break


def _mech(model, classes):
    return ''


# ------------------------------------------------------------------------------------------
# reference writer (hand-written files)
# ------------------------------------------------------------------------------------------
def ref_write(model, kept, opts):
    customs = sorted({c for t in model['tasks'] for c in t['custom']})
    if opts['custom_order'] == 'reversed':
        customs = customs[::-1]
    header = DEFAULT + customs
    buf = io.StringIO()

    class _W:
        """independent serializer: a field is quoted when it contains the delimiter, a quote, CR or LF (or always)"""
        @staticmethod
        def writerow(row):
            cells = []
            for v in row:
                v = str(v)
                if opts['quoting'] == 'all' or any(c in v for c in ';"\r\n'):
                    v = '"' + v.replace('"', '""') + '"'
                cells.append(v)
            buf.write(';'.join(cells) + opts['eol'])
    wr = _W
    wr.writerow(header)
    preds = {i: [] for i in range(len(model['tasks']))}
    for a, b in kept:
        preds[a].append(model['tasks'][b]['id'])
    order = dfs_order(model)
    for i in order:
        t = model['tasks'][i]

        def dt(v):
            return v.strftime('%d.%m.%y') if v is not None else ''
        row = [t['id'], norm_text(t['name']), norm_text(t['resource']), dt(t['start']), dt(t['end']),
               '' if t['estimate'] is None else t['estimate'], '' if t['spent'] is None else t['spent'],
               {True: 'True', False: rnd_false(opts)}[t['milestone']],
               '' if t['parent'] is None else model['tasks'][t['parent']]['id'], ';'.join(str(x) for x in preds[i])]
        row += [norm_custom(t['custom'].get(c)) for c in customs]
        wr.writerow(row)
    text = buf.getvalue()
    if opts['no_final_eol'] and text.endswith(opts['eol']):
        text = text[:-len(opts['eol'])]
    data = text.encode('utf-8')
    if opts['bom']:
        data = b'\xef\xbb\xbf' + data
    return data


def rnd_false(opts):
    return opts['false_text']


def dfs_order(model):
    ch = {i: [] for i in range(len(model['tasks']))}
    roots = []
    for i, t in enumerate(model['tasks']):
        (roots if t['parent'] is None else ch[t['parent']]).append(i)
    out = []

    def walk(i):
        out.append(i)
        for k in ch[i]:
            walk(k)
    for r in roots:
        walk(r)
    return out


def judge_handwritten(model, rnd, acc, wk, opts=None):
    # the reference writer does not carry min_start (not part of the documented ten columns)
    model = dict(model, tasks=[dict(t, min_start=None) for t in model['tasks']])
    try:
        w, objs, kept = build(model)
    except Exception as e:
        acc.count('unbuildable:' + type(e).__name__)
        return
    if opts is None:
        opts = {'eol': rnd.choice(['\n', '\r\n']), 'bom': rnd.random() < 0.5, 'quoting': rnd.choice(['minimal', 'all']),
                'custom_order': rnd.choice(['sorted', 'reversed']), 'no_final_eol': rnd.random() < 0.2,
                'false_text': rnd.choice(['False', '', 'False']),
                # the file is UTF-8 whatever the caller calls that encoding
                'read_encoding': rnd.choice([None, None, 'utf-8', 'UTF-8', 'utf8', 'utf_8', 'U8', 'UTF8', 'utf-8-sig'])}
    # text with a bare CR/LF inside a field needs an eol-independent reader; keep LF files free of lone CR ambiguity
    customs = sorted({c for t in model['tasks'] for c in t['custom']})
    data = ref_write(model, kept, opts)
    p = wk.path('hand.csv')
    with open(p, 'wb') as f:
        f.write(data)
    a = describe(w, customs)
    acc.ev()
    acc.count('hand_written_files')
    acc.count('hand:' + ('crlf' if opts['eol'] == '\r\n' else 'lf') + (':bom' if opts['bom'] else '') + ':' + opts['quoting'])
    acc.sig('hand', opts['eol'] == '\n', opts['bom'], opts['quoting'], opts['custom_order'], opts['no_final_eol'], min(len(a), 4))
    case = {'kind': 'hand', 'model': model, 'opts': opts}
    try:
        r = read_csv(p, encoding=opts['read_encoding']) if opts.get('read_encoding') else read_csv(p)
    except Exception as e:
        acc.violation(f'C13/hand-written-read-raised-{type(e).__name__}' + ('/bom' if opts['bom'] else ''), f'read_csv raised {type(e).__name__}: {str(e)[:120]} (options {opts})', case)
        return
    d = first_diff(a, describe(r, customs))
    if d:
        zero_parent = any(t['parent'] is not None and model['tasks'][t['parent']]['id'] == 0 for t in model['tasks'])
        acc.violation(f'C13/hand-written-{d[0]}' + ('/bom' if opts['bom'] else '') + ('/parent-id-0' if zero_parent and d[0] in ('parent', 'children', 'ids/order') else ''),
                      f'hand-written file loads with another meaning ({opts}): ' + d[1], case)


def run_shard(prop, tier, seed, shard, nshards, budget, acc):
    wk = Work()
    try:
        idx = 0
        while budget.more():
            rnd = core.case_rng(seed, shard, idx, 'csv')
            idx += 1
            model = gen_model(rnd, tier)
            judge_roundtrip(model, acc, wk)
            judge_handwritten(model, rnd, acc, wk)
            acc.cases += 1
            if idx <= 2:
                acc.sample(model)
    finally:
        wk.close()


def run_case(prop, case, acc):
    wk = Work()
    try:
        if case['kind'] == 'hand':
            judge_handwritten(case['model'], None, acc, wk, case['opts'])
        else:
            judge_roundtrip(case, acc, wk)
        acc.cases += 1
    finally:
        wk.close()
