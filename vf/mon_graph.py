"""W-HIST driver: one execution of a random mutation history feeds the monitors of
C01 (well-formed graph), C05 (unique ids, lookup), C11 (owner == membership),
C15 (rejected call changes nothing) and C16 (accepted call has exactly its documented effect).
"""
import sys
import copy

import vf.env  # noqa: F401
from vf import core, graph
from vf.graph import Universe, snap, invariants, expected, execute, setlevel, diff, reach
from pjplan import WBS

_COMMON_ASSUME = [
    'pjplan observed through public getters only; closed universe of every Task/WBS the workload created',
    'bounded: 3-9 tasks, 1-3 WBS, 8-40 calls per history; size-induced RecursionError not explored',
    'attribute values are immutable objects (D7)',
]
META = {
    'C01': dict(level='exploration', required=['calls', 'accepted', 'rejected', 'states_two_levels_and_link',
                                               'link_then_parent_attempts', 'parent_then_link_attempts'],
                rule='random histories of public mutator calls (W-HIST, hostile arguments, shared ids, stale facades); the '
                     'invariant walker runs on the whole-graph snapshot after every call, returning or raising. evaluations = '
                     'snapshots judged; a case is non-trivial when the judged state has >=2 hierarchy levels or >=1 link; '
                     'distinct = label-free shape of the state x operation x outcome',
                assumptions=_COMMON_ASSUME),
    'C05': dict(level='exploration', required=['calls', 'dup_attempts', 'lookups'],
                rule='W-HIST with ids shared by several objects; after every call uniqueness of ids per WBS / detached tree is '
                     'judged on the snapshot, wbs[id] is compared with the model lookup for every id of the universe plus two '
                     'absent ids, WBS.tasks with the model DFS. non-trivial: the call tried to attach a subtree sharing an id '
                     'with the receiving tree, or a lookup on a WBS with >=2 members; distinct = shape x op x outcome',
                assumptions=_COMMON_ASSUME),
    'C11': dict(level='exploration', required=['calls', 'removals', 'reattach_checks'],
                rule='W-HIST; after every call owner==reachability is judged for every (task, WBS) pair; each history ends with a '
                     'scripted tail that re-attaches every released task to a fresh WBS. non-trivial: states where at least one '
                     'task is a member and at least one was released; distinct = shape x op x outcome',
                assumptions=_COMMON_ASSUME),
    'C15': dict(level='exploration', required=['calls', 'rejected'],
                rule='W-HIST; for every call that raises (any exception type) the snapshot after is compared with the snapshot '
                     'before (relations, order, owners, roots, attribute dicts of every object). non-trivial: rejected calls on '
                     'states with >=1 relation; distinct = shape x op x exception type',
                assumptions=_COMMON_ASSUME + ['no fault injection inside mutators: only genuine rejections and raising user callables/iterables']),
    'C16': dict(level='exploration', required=['calls', 'accepted', 'model_compared'],
                rule='W-HIST; for every call that returns the snapshot after must be one of the admissible states of the '
                     'outcome-following reference model applied to the snapshot before (whole graph = frame included; dependency '
                     'lists at set level). non-trivial: accepted calls that change the state or act on a state with >=1 relation; '
                     'distinct = shape x op',
                assumptions=_COMMON_ASSUME + ['where documentation leaves freedom the model yields a set of admissible states (DESIGN 5/C16, 7)']),
}

NAMES = ['n0', 'n1', 'n2', 'n3']


# ------------------------------------------------------------------------------------------
# generation
# ------------------------------------------------------------------------------------------
def gen_universe(rnd, big=False):
    n = rnd.randint(3, 9 if big else 7)
    tasks = []
    small_pool = rnd.random() < 0.3      # many objects share few ids: most attach attempts meet an equal id somewhere
    pool = max(2, n // 2)
    mixed_prio = rnd.random() < 0.35             # an attribute whose values do not all compare with each other (sort must fail cleanly)
    big = 1000 if rnd.random() < 0.3 else 0      # ids beyond the small-int cache: equal ids are then distinct objects
    for k in range(n):
        if small_pool:
            tid = rnd.randint(1, pool) if rnd.random() < 0.6 else k + 1
        else:
            tid = rnd.randint(1, n) if rnd.random() < 0.25 else k + 1
        tid += big
        tk = {'id': tid, 'name': rnd.choice(NAMES)}
        if mixed_prio:
            tk['prio'] = rnd.choice([1, 2, 3, None, 'x', 2.5])
        tasks.append(tk)
    if rnd.random() < 0.2:
        # 0 is an id like any other (also twice: two objects that must never share a WBS)
        for k in rnd.sample(range(n), rnd.choice([1, 2, 2])):
            tasks[k]['id'] = 0
    if rnd.random() < 0.1:
        # ids are values of any kind the user likes: text ids next to numbers (also twice)
        for k in rnd.sample(range(n), rnd.choice([1, 2, 3])):
            tasks[k]['id'] = rnd.choice(['spec', '1', 'spec', '7'])       # '1' and '7' print like the numbers 1 and 7 and are different ids
    nw = rnd.choice([1, 1, 2, 2, 3])
    wbs = [({'title': f'W{k}'} if rnd.random() < 0.3 else {}) for k in range(nw)]
    return {'tasks': tasks, 'wbs': wbs}


def _holders(s):
    return [('t', k) for k in s['T']] + [('w', k) for k in s['R']]


def _hl(s, h):
    return s['T'][h[1]]['children'] if h[0] == 't' else s['R'][h[1]]


def gen_op(rnd, s, u):
    T = list(s['T'])
    W = list(s['R'])
    t, x, y = rnd.choice(T), rnd.choice(T), rnd.choice(T)
    w = rnd.choice(W)

    def some(lo=0, hi=3):
        return [rnd.choice(T) for _ in range(rnd.randint(lo, hi))] if rnd.random() < 0.25 else \
            rnd.sample(T, min(len(T), rnd.randint(lo, hi)))

    holder = ('t', t) if rnd.random() < 0.65 else ('w', w)
    # prefer non-empty lists for list operations
    nonempty = [h for h in _holders(s) if _hl(s, h)]

    def list_holder():
        if nonempty and rnd.random() < 0.8:
            return rnd.choice(nonempty)
        return holder

    def member(h, p=0.8):
        cur = _hl(s, h)
        if cur and rnd.random() < p:
            return rnd.choice(cur)
        return rnd.choice(T)

    # tasks sitting in a released (detached) tree: re-attaching them, or parts of them, is the follow-up the
    # removal paths have to survive (stale owners, stale ids)
    reachable = set()
    for w_, r_ in s['R'].items():
        reachable.update(reach(s, r_))
    loose = [k for k in T if k not in reachable]          # by reachability, not by what Task.wbs claims
    members = [k for k in T if k in reachable]
    if loose and members and rnd.random() < 0.07:
        a, b = rnd.choice(loose), rnd.choice(members)
        r = rnd.random()
        if r < 0.45:
            return ['parent=', a, b]
        if r < 0.8:
            return ['append', ['t', b], a]
        if r < 0.9 and s['T'][b]['owner'] is not None:
            return ['append', ['w', s['T'][b]['owner']], a]
        return ['floordiv', ['t', b], [a], True]
    # attempts that would close a dependency cycle (through either API side) on link-dense graphs: all must be rejected
    if rnd.random() < 0.05:
        def closure(a, kind):
            seen, todo = [], [a]
            while todo:
                z = todo.pop()
                for q in s['T'][z][kind]:
                    if q not in seen and q in s['T']:
                        seen.append(q)
                        todo.append(q)
            return seen
        cands = [k for k in T if s['T'][k]['succs']]
        if cands:
            a = rnd.choice(cands)
            down = closure(a, 'succs')
            if down:
                z = rnd.choice(down)
                r = rnd.random()
                if r < 0.3:
                    return ['rshift', z, [a], True]            # z >> a  although a ->* z
                if r < 0.5:
                    return ['succs.append', z, a]
                if r < 0.7:
                    return ['lshift', a, [z], True]            # a << z
                if r < 0.85:
                    return ['preds.append', a, z]
                return ['succs=', z, list(s['T'][z]['succs']) + [a], 'list']
    # dependency lists are task lists too: remove_all on them, and views kept across edits
    if rnd.random() < 0.05:
        kind = rnd.choice(['preds', 'succs'])
        linked = [k for k in T if s['T'][k][kind]]
        tt = rnd.choice(linked) if linked and rnd.random() < 0.85 else t
        cur = s['T'][tt][kind]
        r = rnd.random()
        views = sorted(k for k, v in u.stale.items() if k.startswith('v'))
        if r < 0.45:
            fk = rnd.choice(['ids', 'ids', 'all', 'none', 'name', 'id', 'raising'])
            if fk == 'ids':
                flt = {'kind': 'ids', 'ids': sorted({s['T'][q]['id'] for q in (rnd.sample(cur, min(len(cur), rnd.randint(1, 3))) if cur else [x])}, key=repr),
                       'as': rnd.choice(['callable', 'kw'])}
            elif fk == 'name':
                flt = {'kind': 'name', 'name': rnd.choice(NAMES)}
            elif fk == 'id':
                flt = {'kind': 'id', 'id': s['T'][rnd.choice(cur) if cur else x]['id']}
            elif fk == 'raising':
                flt = {'kind': 'raising', 'after': rnd.randint(0, 2)}
            elif fk == 'none':
                flt = {'kind': 'none'}
            else:
                flt = {'kind': 'all'}
            return [kind + '.remove_all', tt, flt]
        if r < 0.6 or not views:
            return ['linkview.get', f'v{len(u.stale)}', [kind, tt]]
        slot = rnd.choice(views)
        vk, vt = u.stale[slot][0]
        cur = s['T'][vt][vk]
        r2 = rnd.random()
        if r2 < 0.4:
            return ['linkview.use', slot, [vk + '.remove', vt, rnd.choice(cur) if cur and rnd.random() < 0.8 else x]]
        if r2 < 0.7:
            return ['linkview.use', slot, [vk + '.append', vt, x]]
        return ['linkview.use', slot, [vk + '.remove_all', vt, {'kind': 'ids', 'ids': sorted({s['T'][q]['id'] for q in (cur or [x])}, key=repr)[:2], 'as': 'kw'}]]
    # two newcomers that share an id in one replacement list, kept children listed behind them: the call is refused, and must
    # be refused before anything was taken apart
    if rnd.random() < 0.02:
        byid_ = {}
        for k in T:
            byid_.setdefault(repr(s['T'][k]['id']), []).append(k)
        tw_ = [v for v in byid_.values() if len(v) >= 2]
        hs_ = [h_ for h_ in nonempty]
        if tw_ and hs_:
            h_ = rnd.choice(hs_)
            a_, b_ = rnd.sample(rnd.choice(tw_), 2)
            cur_ = list(_hl(s, h_))
            L_ = [a_, b_] + rnd.sample(cur_, rnd.randint(1, len(cur_)))
            if rnd.random() < 0.3:
                rnd.shuffle(L_)
            return rnd.choice([['children=', list(h_), L_, rnd.choice(['list', 'tuple', 'gen'])], ['floordiv', list(h_), [a_, b_], False]])
    # two distinct objects with equal ids on the same end of a link (mirror updates must go by object, not by id)
    if rnd.random() < 0.04:
        byid = {}
        for k in T:
            byid.setdefault(repr(s['T'][k]['id']), []).append(k)
        twins = [v for v in byid.values() if len(v) >= 2]
        if twins:
            # prefer a task that already waits for one twin: add the other twin through either side of the link
            ready = []
            for grp in twins:
                for a in grp:
                    for b_ in grp:
                        if a != b_:
                            for kind, other in (('succs', 'preds'), ('preds', 'succs')):
                                for v_ in s['T'][a][kind]:
                                    if v_ in s['T'] and b_ not in s['T'][v_][other]:
                                        ready.append((kind, a, b_, v_))
            if ready and rnd.random() < 0.7:
                kind, a, b_, v_ = rnd.choice(ready)
                if kind == 'succs':     # v_ waits for a; make it wait for the twin b_ too
                    return rnd.choice([['rshift', b_, [v_], True], ['succs.append', b_, v_], ['succs=', b_, list(s['T'][b_]['succs']) + [v_], 'list'],
                                       ['lshift', v_, [b_], True]])
                return rnd.choice([['lshift', b_, [v_], True], ['preds.append', b_, v_], ['preds=', b_, list(s['T'][b_]['preds']) + [v_], 'list'],
                                   ['rshift', v_, [b_], True]])
            a, b_ = rnd.sample(rnd.choice(twins), 2)
            v_ = rnd.choice(T)
            return rnd.choice([['rshift', a, [v_], True], ['lshift', v_, [a], True], ['preds.append', v_, a], ['lshift', a, [v_], True]])
    c = rnd.randrange(100)
    if c < 9:
        return ['parent=', t, x if rnd.random() < 0.85 else None]
    if c < 17:
        L = some(0, 4)
        form = rnd.choice(['list', 'list', 'list', 'tuple', 'gen', 'single', 'none', 'gen_raises'])
        if rnd.random() < 0.1:
            L = L + [None]
        if rnd.random() < 0.04:
            L = L + ['#junk']
        if rnd.random() < 0.5:
            cur = _hl(s, holder)
            L = rnd.sample(cur, rnd.randint(0, len(cur))) + L
            if rnd.random() < 0.5:
                rnd.shuffle(L)        # kept children also after the newcomers (a newcomer that is refused must not cost them their place)
        if form == 'single':
            L = L[:1]
        if form == 'none':
            L = []
        if rnd.random() < 0.1:
            src = rnd.choice(nonempty) if nonempty and rnd.random() < 0.8 else holder
            return ['children=', list(holder), [], 'view', list(src)]
        return ['children=', list(holder), L, form]
    if c < 24:
        return ['append', list(holder), x]
    if c < 30:
        h = list_holder()
        return ['lremove', list(h), member(h)]
    if c < 38:
        h = list_holder() if rnd.random() < 0.6 else holder
        n = len(_hl(s, h))
        i = rnd.choice([0, n, n - 1, -1, n + 1, 1, rnd.randint(-1, n + 1)])
        if rnd.random() < 0.08:
            i = rnd.choice([None, 1.0, '1', n / 2, True])       # whatever the caller computed as a position
        cand = [q for q in T if q not in _hl(s, h)]
        xx = rnd.choice(cand) if cand and rnd.random() < 0.75 else x
        return ['insert', list(h), i, xx]
    if c < 46:
        h = list_holder()
        k = rnd.choice([1, 1, 1, 2, 3])
        xs = [member(h) for _ in range(k)]
        single = k == 1 and rnd.random() < 0.6
        mode = rnd.choice(['b', 'b', 'a', 'a', 'ba', ''])
        anchor = member(h)
        return ['move', list(h), xs, anchor if 'b' in mode else None,
                (member(h) if mode == 'ba' else anchor) if 'a' in mode else None, single, rnd.choice(['list', 'list', 'gen'])]
    if c < 50:
        h = list_holder()
        big_ = [q for q in nonempty if len(_hl(s, q)) >= 3]
        if big_ and rnd.random() < 0.6:
            h = rnd.choice(big_)
        has_prio = any('prio' in dict(v['attrs']) for v in s['T'].values())
        keys = ['name', 'id', ['name', 'id'], ['name'], 'nosuchattr', 5, 'prio', 'prio'] + (['prio'] * 6 if has_prio else [])
        return ['sort', list(h), rnd.choice(keys), rnd.random() < 0.5]
    if c < 54:
        h = list_holder()
        cur = _hl(s, h)
        ids = [s['T'][q]['id'] for q in (rnd.sample(cur, rnd.randint(0, len(cur))) if cur else [])]
        if rnd.random() < 0.2:
            ids.append(rnd.choice([99, s['T'][x]['id']]))
        if ids and rnd.random() < 0.1:
            ids.append(ids[0])            # the same id named twice
        return ['reorder', list(h), ids]
    if c < 58:
        h = list_holder()
        cur = _hl(s, h)
        kind = rnd.choice(['ids', 'ids', 'id', 'name', 'all', 'none', 'int', 'raising', 'ids+name'])
        if kind == 'ids':
            flt = {'kind': 'ids', 'ids': sorted({s['T'][q]['id'] for q in some(0, 3)} | ({s['T'][rnd.choice(cur)]['id']} if cur else set()), key=repr),
                   'as': rnd.choice(['callable', 'kw'])}
        elif kind == 'id':
            flt = {'kind': 'id', 'id': s['T'][member(h)]['id']}
        elif kind == 'name':
            flt = {'kind': 'name', 'name': rnd.choice(NAMES)}
        elif kind == 'ids+name':
            flt = {'kind': 'ids+name', 'ids': sorted({s['T'][q]['id'] for q in (cur or [x])}, key=repr), 'name': rnd.choice(NAMES)}
        elif kind == 'int':
            flt = {'kind': 'int', 'value': s['T'][member(h)]['id']}
        elif kind == 'raising':
            flt = {'kind': 'raising', 'after': rnd.randint(0, 2)}
        elif kind == 'none':
            flt = {'kind': 'none'}
        else:
            flt = {'kind': 'all'}
        if rnd.random() < 0.4:
            return ['wbs.remove_all', w, flt]
        return ['remove_all', list(h), flt]
    if c < 64:
        L = some(0, 3)
        form = rnd.choice(['list', 'list', 'tuple', 'gen', 'single', 'none', 'gen_raises'])
        if rnd.random() < 0.08:
            L = L + [None]
        if rnd.random() < 0.06:
            L = L + ['#junk']       # a task id where a task belongs: the call fails, and must fail without having changed anything
            if rnd.random() < 0.5:
                t = rnd.choice([k for k in T if not s['T'][k]['succs'] and not s['T'][k]['preds']] or [t])
        if form == 'single':
            L = L[:1]
        if form == 'none':
            L = []
        if rnd.random() < 0.08:
            kind_ = rnd.choice(['preds', 'succs'])
            linked_ = [k for k in T if s['T'][k][kind_]]
            return [rnd.choice(['preds=', 'succs=']), t, [], 'view', [kind_, rnd.choice(linked_) if linked_ else x]]
        return [rnd.choice(['preds=', 'succs=']), t, L, form]
    if c < 72:
        return [rnd.choice(['preds.append', 'succs.append']), t, x]
    if c < 76:
        kind = rnd.choice(['preds', 'succs'])
        cur = s['T'][t][kind]
        linked = [k for k in T if s['T'][k][kind]]
        if linked and rnd.random() < 0.8:
            t = rnd.choice(linked)
            cur = s['T'][t][kind]
            x = rnd.choice(cur)
        return [kind + '.remove', t, x]
    if c < 82:
        L = some(1, 3)
        if loose and rnd.random() < 0.15:
            L = [rnd.choice(loose)] * 2          # the same task named twice is still that one task
        single = len(L) == 1 and rnd.random() < 0.6
        return ['floordiv', list(holder), L, single]
    if c < 88:
        L = some(1, 3)
        single = len(L) == 1 and rnd.random() < 0.6
        return [rnd.choice(['lshift', 'rshift']), t, L, single]
    if c < 90:
        h = list_holder()
        return [rnd.choice(['list_lshift', 'list_rshift']), list(h), some(1, 2)]
    if c < 94:
        members = [q for q in T if s['T'][q]['owner'] is not None]
        if members and rnd.random() < 0.8:
            x = rnd.choice(members)
            w = s['T'][x]['owner'] if rnd.random() < 0.85 else w
        return ['wbs.remove', w, x]
    if c < 96:
        h = list_holder()
        if rnd.random() < 0.5:
            at_ = rnd.choice(['name', 'prio', 'resource'])
            return ['bulk_set', list(h), at_, rnd.choice([3, None, 7]) if at_ == 'prio' else rnd.choice(['n0', 'n9', None])]
        return ['bulk_parent', list(h), x]
    if c < 98:
        if len(T) >= 12:
            return ['append', list(holder), x]
        tid = rnd.choice([s['T'][x]['id'], 100 + len(T)])
        rel = {}
        which = rnd.sample(['parent', 'children', 'predecessors', 'successors'], rnd.choice([1, 1, 1, 2]))
        for key in which:
            rel[key] = x if key == 'parent' else some(1, 2)
        return ['new', tid, rnd.choice(NAMES), rel]
    # stale facade
    if [k for k in u.stale if k.startswith('s')] and rnd.random() < 0.7:
        slot = rnd.choice(sorted(k for k in u.stale if k.startswith('s')))
        h = tuple(u.stale[slot][0])
        kk = rnd.choice(['append', 'lremove', 'insert', 'move', 'sort', 'reorder'])
        if kk == 'append':
            inner = ['append', list(h), x]
        elif kk == 'lremove':
            inner = ['lremove', list(h), member(h)]
        elif kk == 'insert':
            inner = ['insert', list(h), rnd.randint(0, len(_hl(s, h))), x]
        elif kk == 'move':
            inner = ['move', list(h), [member(h)], member(h), None, True]
        elif kk == 'sort':
            inner = ['sort', list(h), 'name', rnd.random() < 0.5]
        else:
            cur = _hl(s, h)
            inner = ['reorder', list(h), [s['T'][q]['id'] for q in rnd.sample(cur, rnd.randint(0, len(cur)))]]
        return ['stale.use', slot, inner]
    h = list_holder()
    return ['stale.get', f's{len(u.stale)}', list(h)]


# ------------------------------------------------------------------------------------------
# signatures / classification
# ------------------------------------------------------------------------------------------
def shape(s):
    """label-free canonical shape of a state (sorted multiset of per-task local shapes)."""
    T = s['T']

    def depth(k):
        return len(graph.ancestors(s, k))
    items = sorted((depth(k), len(v['children']), len(set(v['preds'])), len(set(v['succs'])), v['owner'] is not None)
                   for k, v in T.items())
    return repr(items) + repr(sorted(len(r) for r in s['R'].values()))


def nontrivial_state(s):
    lv2 = any(v['parent'] is not None for v in s['T'].values())
    link = any(v['preds'] for v in s['T'].values())
    return lv2, link


def opname(op):
    if op[0] == 'stale.use':
        return 'stale.' + op[2][0]
    if op[0] == 'linkview.use':
        return 'view.' + op[2][0]
    return op[0]


def argclass(s0, op):
    """coarse relation between the arguments and the state, used in signatures and keys"""
    k = op[0]
    try:
        if k == 'parent=':
            t, p = op[1], op[2]
            if p is None:
                return 'none'
            if p == t:
                return 'self'
            if p in reach(s0, [t]):
                return 'descendant'
            if p in s0['T'][t]['preds'] or p in s0['T'][t]['succs']:
                return 'linked'
            return 'other'
        if k == 'insert':
            cur = _hl(s0, tuple(op[1]))
            i = op[2]
            pos = 'idx<0' if i < 0 else 'idx==len' if i == len(cur) else 'idx>len' if i > len(cur) else 'idx-in'
            return pos + (':member' if op[3] in cur else ':new') + (':empty' if not cur else '')
        if k == 'move':
            xs, b, a = op[2], op[3], op[4]
            if b is None and a is None:
                return 'no-anchor'
            if b is not None and a is not None:
                return 'both-anchors'
            if (b if b is not None else a) in xs:
                return 'anchor-is-moved'
            return 'multi' if len(xs) > 1 else 'single'
        if k in ('children=', 'preds=', 'succs='):
            return op[3]
        if k in ('remove_all', 'wbs.remove_all'):
            return op[2]['kind']
        if k == 'new':
            return '+'.join(sorted(op[3]))
        if k == 'sort':
            return repr(op[2])
    except Exception:
        return '?'
    return ''


# ------------------------------------------------------------------------------------------
# driving one history
# ------------------------------------------------------------------------------------------
def would_dup(exp_states):
    if not exp_states:
        return False
    return all(graph.has_dup_ids(e) for e in exp_states)


def attach_shares_id(s0, op):
    """C05 counter: does the call try to attach a subtree that shares an id with the receiving tree?"""
    k = op[0]
    inc = []
    recv = None
    if k == 'parent=' and op[2] is not None:
        inc, recv = [op[1]], ('t', op[2])
    elif k in ('append',):
        inc, recv = [op[2]], tuple(op[1])
    elif k == 'insert':
        inc, recv = [op[3]], tuple(op[1])
    elif k in ('children=', 'floordiv'):
        inc, recv = [x for x in op[2] if x is not None], tuple(op[1])
    elif k == 'bulk_parent':
        inc, recv = list(_hl(s0, tuple(op[1]))), ('t', op[2])
    if recv is None or not inc:
        return None
    if recv[0] == 't':
        top = recv[1]
        anc = graph.ancestors(s0, top)
        if anc:
            top = anc[-1]
        w = s0['T'][top]['owner']
        tree = reach(s0, s0['R'][w]) if w is not None and w in s0['R'] else reach(s0, [top])
    else:
        tree = reach(s0, s0['R'][recv[1]])
    tree = set(tree)
    tree_ids = {}
    for q in tree:
        tree_ids.setdefault(repr(s0['T'][q]['id']), []).append(q)
    kinds = set()
    incoming = []
    for x in inc:
        incoming += [q for q in reach(s0, [x]) if q in s0['T']]
    seen_ids = {}
    for q in incoming:
        if q in tree:
            continue
        i = repr(s0['T'][q]['id'])
        if i in tree_ids:
            holder_lab = recv[1] if recv[0] == 't' else None
            if holder_lab in tree_ids[i]:
                kinds.add('receiver')
            elif any(graph.ancestors(s0, z) and holder_lab in graph.ancestors(s0, z) for z in tree_ids[i]):
                kinds.add('below-receiver')
            else:
                kinds.add('other-branch')
        if i in seen_ids and seen_ids[i] != q:
            kinds.add('sibling-in-call')
        seen_ids.setdefault(i, q)
    return kinds


def run_history(prop, spec, ops, acc, gen=None, tail=True, judge_from=0, layer=''):
    """ops: list of descriptors, or None with gen=(rnd, length) to generate on the fly.
    Returns the list of executed descriptors (for replay)."""
    u = Universe(spec)
    executed = []
    history = []
    ever_member = set()
    n = len(ops) if ops is not None else gen[1]
    corrupt = False
    s_after = snap(u)
    prefix = []
    if ops is None and len(s_after['T']) >= 4 and gen[0].random() < 0.1:
        # scenario prefix "id recycled after a removal": a three-level branch is removed by one of the removal paths, a
        # new task re-uses the id of the removed leaf inside the WBS, then the old leaf (or its parent) comes back
        rnd = gen[0]
        r_, a_, b_, c_ = list(s_after['T'])[:4]
        w_ = rnd.choice(list(s_after['R']))
        prefix = [['append', ['w', w_], r_], ['append', ['w', w_], a_], ['append', ['t', a_], b_], ['append', ['t', b_], c_]]
        prefix.append(rnd.choice([['wbs.remove', w_, a_], ['lremove', ['w', w_], a_], ['children=', ['w', w_], [r_], 'list'],
                                  ['wbs.remove_all', w_, {'kind': 'id', 'id': s_after['T'][a_]['id']}], ['wbs.remove', w_, b_]]))
        victim = rnd.choice([c_, c_, b_])
        prefix.append(['new', s_after['T'][victim]['id'], 'n0', {'parent': r_}])
        prefix.append(rnd.choice([['parent=', victim, r_], ['append', ['t', r_], victim], ['append', ['w', w_], victim],
                                  ['insert', ['t', r_], 0, victim], ['floordiv', ['t', r_], [victim], True]]))
        n += len(prefix)
    elif ops is None and len(s_after['T']) >= 5 and gen[0].random() < 0.07:
        # scenario prefix "a view kept across a sort": user code holds task.children (or wbs.roots), the list is sorted and
        # edited through the owner, then the kept view is used again -- it must still speak for the current list
        rnd = gen[0]
        a_, b_, c_, d_, e_ = list(s_after['T'])[:5]
        w_ = rnd.choice(list(s_after['R']))
        h_ = rnd.choice([['t', a_], ['w', w_]])
        prefix = [['append', ['w', w_], a_]] if h_[0] == 't' else []
        prefix += [['append', h_, b_], ['append', h_, c_], ['append', h_, d_], ['stale.get', 's0', h_],
                   rnd.choice([['sort', h_, rnd.choice(['name', 'id', ['name', 'id'], ['id']]), rnd.random() < 0.5],
                               ['reorder', h_, [s_after['T'][q]['id'] for q in rnd.sample([b_, c_, d_], rnd.randint(1, 3))]]])]
        prefix.append(rnd.choice([['append', h_, e_], ['lremove', h_, b_], ['insert', h_, 0, e_], ['wbs.remove', w_, c_]]))
        prefix.append(['stale.use', 's0', rnd.choice([['move', h_, [d_], b_, None, True], ['sort', h_, 'name', False], ['reorder', h_, []],
                                                      ['lremove', h_, d_], ['append', h_, e_], ['insert', h_, 1, e_]])])
        n += len(prefix)
    elif ops is None and len(s_after['T']) >= 5 and len(s_after['R']) >= 2 and gen[0].random() < 0.08:
        # scenario prefix "replacement list with a task of another WBS": the call is refused; whatever it leaves behind, the
        # user carries on -- gives the id of a listed child to a new task, puts the listed children back
        rnd = gen[0]
        a_, b_, c_, d_, f_ = list(s_after['T'])[:5]
        w0, w1 = list(s_after['R'])[:2]
        L_ = rnd.choice([[f_, b_], [f_, c_, b_], [b_, f_, c_], [d_, f_, b_], [f_]])
        prefix = [['append', ['w', w0], a_], ['append', ['t', a_], b_], ['append', ['t', a_], c_], ['append', ['w', w1], f_],
                  rnd.choice([['children=', ['t', a_], L_, rnd.choice(['list', 'tuple', 'gen'])], ['floordiv', ['t', a_], L_, False],
                              ['children=', ['w', w0], [f_, a_], 'list']]),
                  ['new', s_after['T'][rnd.choice([b_, c_])]['id'], 'n0', {'parent': a_}],
                  rnd.choice([['parent=', b_, a_], ['append', ['t', a_], b_], ['insert', ['t', a_], 0, c_], ['parent=', c_, a_]]),
                  rnd.choice([['parent=', c_, a_], ['append', ['t', a_], c_], ['floordiv', ['t', a_], [b_, c_], False]])]
        n += len(prefix)
    elif ops is None and len(s_after['T']) >= 4 and any('prio' in t for t in spec['tasks']) and gen[0].random() < 0.12:
        # scenario prefix "sorting a partly filled column": many siblings, then a sort by an attribute whose values do not all
        # compare with each other -- the call fails, and must fail without having moved anything
        rnd = gen[0]
        labs = list(s_after['T'])
        w_ = rnd.choice(list(s_after['R']))
        if rnd.random() < 0.5:
            h_ = ['w', w_]
            prefix = []
        else:
            h_ = ['t', labs[0]]
            prefix = [['append', ['w', w_], labs[0]]]
            labs = labs[1:]
        rnd.shuffle(labs)
        prefix += [['append', h_, lab] for lab in labs]
        prefix += [['sort', h_, 'prio', rnd.random() < 0.5], ['sort', h_, rnd.choice(['prio', ['prio', 'id'], 'name']), rnd.random() < 0.5]]
        n += len(prefix)
    elif ops is None and gen[0].random() < 0.45:
        # builder prefix: a WBS tree with chains (depth up to 4) so that deep states are common starting points
        rnd = gen[0]
        labs = list(s_after['T'])
        placed = []
        for lab in labs:
            if rnd.random() < 0.2:
                continue
            if placed and rnd.random() < 0.75:
                par = placed[-1] if rnd.random() < 0.6 else rnd.choice(placed)
                prefix.append(['append', ['t', par], lab])
            else:
                prefix.append(['append', ['w', rnd.choice(list(s_after['R']))], lab])
            placed.append(lab)
        if rnd.random() < 0.5:
            # link builder: a random DAG over the labels (lower label -> higher label), diamonds included
            for _ in range(rnd.randint(2, 8)):
                a, b_ = sorted(rnd.sample(range(len(labs)), 2)) if len(labs) >= 2 else (0, 0)
                if a != b_:
                    prefix.append([rnd.choice(['rshift', 'lshift']), labs[a] if rnd.random() < 0.5 else labs[b_], [labs[b_]], True]
                                  if False else (['rshift', labs[a], [labs[b_]], True] if rnd.random() < 0.5 else ['lshift', labs[b_], [labs[a]], True]))
        n += len(prefix)
    for step in range(n):
        s0 = s_after
        if ops is not None:
            op = ops[step]
        elif step < len(prefix):
            op = prefix[step]
        else:
            op = gen_op(gen[0], s0, u)
        if op[0] in ('stale.use', 'linkview.use') and op[1] not in u.stale:
            continue
        executed.append(op)
        if step < judge_from:
            # base-state prefix of the exhaustive layer: already judged when the base state was collected
            try:
                execute(u, op)
            except Exception:
                pass
            if step == judge_from - 1:
                s_after = snap(u)
            continue
        name = opname(op)
        ac = argclass(s0, op)
        exp = None
        ret_exp = ('any',)
        if op[0] not in ('new', 'stale.get', 'linkview.get'):
            try:
                exp, ret_exp = expected(s0, op)
            except Exception as e:  # a model that cannot follow a hostile descriptor = unspecified
                exp = None
                acc.count('model_error:' + type(e).__name__)
        dupkinds = attach_shares_id(s0, op) if prop == 'C05' else None
        # call event
        try:
            ret = execute(u, op)
            outcome = 'ok'
        except graph._Boom:
            ret = None
            outcome = 'raise:UserCallable'
        except RecursionError:
            ret = None
            outcome = 'raise:RecursionError'
        except RuntimeError:
            ret = None
            outcome = 'raise:RuntimeError'      # subclasses of RuntimeError are RuntimeErrors
        except Exception as e:
            ret = None
            outcome = 'raise:' + type(e).__name__
        # return event
        s1 = snap(u)
        s_after = s1
        history.append([name, ac, outcome])
        acc.count(layer + 'calls')
        acc.count('op:' + name + ':' + ('ok' if outcome == 'ok' else 'raise'))
        acc.count('accepted' if outcome == 'ok' else 'rejected')
        if outcome != 'ok':
            acc.count('reject:' + name + ':' + outcome[6:])
        if op[0] == 'new' and outcome == 'ok':
            # model for the constructor: fresh task then the single relations in documented order
            lab = ret[1]
            base = copy.deepcopy(s0)
            base['T'][lab] = {'id': op[1], 'parent': None, 'children': [], 'preds': [], 'succs': [], 'owner': None,
                              'attrs': s1['T'][lab]['attrs']}
            cur = [base]
            ok_model = True
            for key in ('parent', 'children', 'successors', 'predecessors'):
                if key not in op[3]:
                    continue
                sub = {'parent': ['parent=', lab, op[3].get('parent')],
                       'children': ['children=', ['t', lab], op[3].get('children'), 'list'],
                       'successors': ['succs=', lab, op[3].get('successors'), 'list'],
                       'predecessors': ['preds=', lab, op[3].get('predecessors'), 'list']}[key]
                nxt = []
                for b in cur:
                    e_, _ = expected(b, sub)
                    if e_ is None:
                        ok_model = False
                    else:
                        nxt += e_
                cur = nxt
            exp = cur if ok_model else None
        elif op[0] == 'new':
            if len(op[3]) > 1 and s1 != s0:
                # a constructor with several relation arguments that fails after the first one is not a
                # single rejected mutation; no verdict, history ends (universe may hold an unlabeled object)
                acc.count('multi_kw_constructor_failed_midway')
                corrupt = True
                break
        lv2, link = nontrivial_state(s1)
        sh = shape(s1)

        polluted = _polluted(s1)
        inv = [] if polluted else invariants(s1)
        viol = []   # (prop, key, msg)
        for p, nm, detail in inv:
            viol.append((p, f'{p}/{nm}/{name}' + (f':{ac}' if ac else ''), f'{nm} after {name}({ac}) -> {outcome}: {detail}'))
        # "broken": the forest / link structure itself is corrupt (C01) -- later verdicts would only be consequences.
        # Violations of C05/C11 alone (duplicate id, stale owner) leave the structure walkable, so the history goes on
        # unless the property under check is the one that fired.
        broken = any(p == 'C01' for p, _, _ in inv)
        own_fired = any(p == prop for p, _, _ in inv) or (broken and prop in ('C01', 'C16'))

        # ---- C01
        if prop == 'C01':
            acc.ev()
            if lv2 and link:
                acc.count('states_two_levels_and_link')
            if lv2 or link:
                acc.sig(sh, name, outcome)
            if op[0] == 'parent=' and ac == 'linked' or (op[0] in ('children=', 'append', 'floordiv', 'insert') and _links_holder(s0, op)):
                acc.count('link_then_parent_attempts')
            if op[0] in ('preds=', 'succs=', 'preds.append', 'succs.append', 'lshift', 'rshift') and _links_relative(s0, op):
                acc.count('parent_then_link_attempts')
        # ---- C05
        if prop == 'C05':
            acc.ev()
            if dupkinds:
                acc.count('dup_attempts')
                for kd in dupkinds:
                    acc.count('dup_attempt:' + kd + (':at-root' if _recv_is_root(op) else ':below-member'))
                acc.sig(sh, name, outcome, sorted(dupkinds))
            if exp and would_dup(exp) and outcome not in ('ok', 'raise:RuntimeError', 'raise:UserCallable'):
                viol.append(('C05', f'C05/wrong-exception-type/{name}', f'{name} that would duplicate an id raised {outcome[6:]}, not RuntimeError'))
            for v in _lookup_checks(u, s1, acc, sh, name, structure_ok=not inv):
                viol.append(v)
        # ---- C11
        if prop == 'C11':
            acc.ev()
            members = sum(1 for v in s1['T'].values() if v['owner'] is not None)
            released = [k for k in s0['T'] if s0['T'][k]['owner'] is not None and s1['T'][k]['owner'] is None]
            if released:
                acc.count('removals')
                acc.count('removal_via:' + name)
                if any(s1['T'][k]['children'] for k in released if s1['T'][k]['parent'] is None):
                    acc.count('released_subtree_depth>=2')
            adopted = [k for k in s0['T'] if s0['T'][k]['owner'] != s1['T'][k]['owner'] and s1['T'][k]['owner'] is not None]
            if any(s1['T'][k]['children'] for k in adopted):
                acc.count('adopted_subtree_depth>=2')
            if members and (released or any(v['owner'] is None for v in s1['T'].values())):
                acc.sig(sh, name, outcome)
        if outcome == 'ok' and exp and op[0] in ('wbs.remove', 'lremove', 'remove_all', 'wbs.remove_all', 'children=') or \
                outcome == 'ok' and exp and op[0] == 'stale.use' and op[2][0] == 'lremove':
            # effect clause of C11: whatever a removal that returned takes out of a WBS reports no owner and is gone from it
            want_gone = [k for k in s0['T'] if s0['T'][k]['owner'] is not None and all(e_['T'][k]['owner'] is None for e_ in exp)]
            if want_gone:
                reach1 = set()
                for r__ in s1['R'].values():
                    reach1.update(reach(s1, r__))
                still = [k for k in want_gone if k in reach1 or s1['T'][k]['owner'] is not None]
                if still:
                    viol.append(('C11', f'C11/removed-task-still-member/{name}', f'{name} returned, but {still} (to be released by it) are still members / still report an owner'))
        ever_member.update(k for k, v in s1['T'].items() if v['owner'] is not None)
        if outcome == 'raise:RuntimeError' and exp and op[0] in ('append', 'insert', 'parent=', 'floordiv'):
            # last clause of C11: a task that left a WBS "can be attached to another WBS" -- the attach call may be refused only
            # for a documented reason (cycle, link to an ancestor, id already present), i.e. when its documented effect would
            # break an invariant
            subj = op[1] if op[0] == 'parent=' else (op[3] if op[0] == 'insert' else (op[2] if op[0] == 'append' else (op[2][0] if len(set(map(str, op[2]))) == 1 else None)))
            recv = ('t', op[2]) if op[0] == 'parent=' else tuple(op[1])
            if subj in s0['T'] and (recv[0] == 'w' or recv[1] in s0['T']) and not (op[0] == 'parent=' and op[2] is None):
                rel = s0['T'][subj]['owner'] is None and s0['T'][subj]['parent'] is None and subj in ever_member
                target_w = recv[1] if recv[0] == 'w' else s0['T'][recv[1]]['owner']
                if rel and target_w is not None and not _polluted(s0) and not invariants(s0) and all(not invariants(e_) for e_ in exp):
                    if prop == 'C11':
                        acc.count('released_task_attach_refusals_judged')
                    viol.append(('C11', f'C11/released-task-refused/{name}', f'{name}: {subj} (left its WBS, no owner, no parent) refused by {recv} of {target_w} although the attachment breaks nothing'))
        if prop == 'C11' and outcome == 'ok' and op[0] in ('append', 'insert', 'parent=', 'floordiv'):
            acc.count('attach_calls_accepted')
        # ---- C15
        if outcome != 'ok' and op[0] not in ('stale.get', 'linkview.get'):
            if prop == 'C15':
                acc.ev()
                if lv2 or link or any(s0['R'].values()):
                    acc.sig(shape(s0), name, ac, outcome)
                if op[0] in ('children=', 'floordiv', 'preds=', 'succs=', 'lshift', 'rshift', 'move') and len(op[2]) > 1:
                    acc.count('multi_element_rejections')
            if s1 != s0:
                if op[0] in ('bulk_parent', 'list_lshift', 'list_rshift'):
                    ac = 'partial-prefix' if _is_partial_prefix(s0, s1, op) else 'other'
                viol.append(('C15', f'C15/{name}' + (f':{ac}' if ac else ''),
                             f'{name}({ac}) raised {outcome[6:]} but state changed: {diff(s0, s1)}'))
        # ---- C16
        if outcome == 'ok' and op[0] not in ('stale.get', 'linkview.get'):
            if exp is None and ret_exp[0] == 'permutation':
                # order left open by the statement: the list must still hold the same tasks, and nothing else may change
                acc.count('permutation_only:' + name)
                h_ = tuple(ret_exp[1])
                norm = copy.deepcopy(s1)
                l1, l0 = graph._hl(norm, h_), graph._hl(s0, h_)
                if sorted(l1) == sorted(l0):
                    l1[:] = l0
                if setlevel(norm, owner=True) != setlevel(s0, owner=True):
                    viol.append(('C16', f'C16/{name}/not-a-permutation', f'{name} returned; beyond the order of {h_} something else changed: {diff(s0, s1)}'))
            elif exp is None:
                acc.count('unspecified:' + name)
            else:
                if prop == 'C16':
                    acc.ev()
                    acc.count('model_compared')
                    acc.count('model_compared:' + name)
                    if s1 != s0 or lv2 or link:
                        acc.sig(shape(s0), name, ac)
                    if step >= 3:
                        acc.count('deep_state_calls')
                # owners are part of the documented effect ("releases the tasks left out", "takes its whole subtree along")
                got = setlevel(s1, owner=True)
                # the state before the call was well-formed (a history ends at the first C01 break), so a mismatch is the call's own effect
                if got not in [setlevel(e, owner=True) for e in exp]:
                    viol.append(('C16', f'C16/{name}' + (f':{ac}' if ac else ''),
                                 f'{name}({ac}) returned but effect differs from the documented one: got-vs-model {diff(exp[0], s1)}'))
                elif ret_exp[0] == 'val' and ret is not None and bool(ret) != bool(ret_exp[1]):
                    # documented for the list classes as "True if the task exists, otherwise False"; only the truth value is
                    # demanded (an implementation may answer with a count or with the removed task)
                    viol.append(('C16', f'C16/{name}/return-value', f'{name} returned {ret!r}, documented truth value {ret_exp[1]!r}'))

        mine = [(p, k, m) for p, k, m in viol if p == prop]
        if mine:
            case = {'kind': 'history', 'spec': spec, 'ops': executed, 'history': history}
            for p, k, m in mine[:2]:
                acc.violation(k, m, case)
        if polluted or own_fired:
            # corrupted state, or an object the workload never got hold of (half-constructed Task of a
            # failed constructor) is wired into the graph: later verdicts would only be consequences
            corrupt = True
            if polluted:
                acc.count('universe_polluted')
            break
    acc.sample_hist = history
    # ---- C11 scripted tail: every released task re-attaches to a fresh WBS
    if prop == 'C11' and tail and not corrupt:
        s = snap(u)
        for k, v in s['T'].items():
            if v['owner'] is None and v['parent'] is None:
                fresh = WBS()
                t = u.T(k)
                try:
                    fresh.roots.append(t)
                    ok = True
                except Exception as e:
                    ok = False
                    err = type(e).__name__ + ': ' + str(e)
                acc.ev()
                acc.count('reattach_checks')
                if not ok:
                    sub_ids = [s['T'][q]['id'] for q in reach(s, [k])]
                    if len(set(map(repr, sub_ids))) == len(sub_ids):
                        acc.violation('C11/released-task-refused-by-fresh-wbs', f'{k} (no owner, no parent) refused by a fresh WBS: {err}',
                                      {'kind': 'history', 'spec': spec, 'ops': executed, 'history': history})
                    break
                members = reach(s, [k])
                bad = [q for q in members if u.T(q).wbs is not fresh]
                in_tasks = [u.L(z) for z in fresh.tasks]
                if bad or in_tasks != members:
                    acc.violation('C11/reattached-subtree-not-owned', f'after fresh.roots.append({k}): not owned {bad}, tasks {in_tasks} vs {members}',
                                  {'kind': 'history', 'spec': spec, 'ops': executed, 'history': history})
                    break
                # take it out again so that later tail steps see a detached tree
                fresh.remove(t)
    return executed, history


def _is_partial_prefix(s0, s1, op):
    """mechanism classifier for the recorded finding F-T9: the state after the rejected bulk call is
    exactly what the per-task operation yields for a proper prefix of the list (rest untouched)."""
    members = list(_hl(s0, tuple(op[1])))
    cur = copy.deepcopy(s0)
    for n, t in enumerate(members[:-1] if len(members) > 1 else []):
        if op[0] == 'bulk_parent':
            graph.m_attach_last(cur, t, ('t', op[2]))
        else:
            kind = 'preds' if op[0] == 'list_lshift' else 'succs'
            graph.m_set_links(cur, t, list(cur['T'][t][kind]) + list(op[2]), kind)
        if setlevel(cur) == setlevel(s1):
            return True
    return False


def _polluted(s):
    for v in s['T'].values():
        for f in ('parent', 'owner'):
            if isinstance(v[f], str) and v[f].startswith('?'):
                return True
        for f in ('children', 'preds', 'succs'):
            if any(isinstance(x, str) and x.startswith('?') for x in v[f]):
                return True
    return any(isinstance(x, str) and x.startswith('?') for r in s['R'].values() for x in r)


def _recv_is_root(op):
    k = op[0]
    if k in ('append', 'insert', 'children=', 'floordiv'):
        return op[1][0] == 'w'
    return False


def _links_holder(s0, op):
    """does an incoming child have a dependency link with the receiving task (or its ancestors)?"""
    holder = tuple(op[1])
    if holder[0] != 't':
        return False
    inc = [op[2]] if op[0] == 'append' else [op[3]] if op[0] == 'insert' else [x for x in op[2] if x is not None]
    line = [holder[1]] + graph.ancestors(s0, holder[1])
    for x in inc:
        if x in s0['T'] and (set(s0['T'][x]['preds']) | set(s0['T'][x]['succs'])) & set(line):
            return True
    return False


def _links_relative(s0, op):
    t = op[1]
    L = [op[2]] if op[0].endswith('.append') else [x for x in op[2] if x is not None]
    rel = set(graph.ancestors(s0, t)) | set(reach(s0, [t]))
    return any(x in rel for x in L)


def _fresh_key(i):
    """an object equal to the id but not identical to it (lookup is by equality)"""
    if isinstance(i, bool):
        return i
    if isinstance(i, int):
        return int(str(i))
    if isinstance(i, str):
        return ''.join(list(i))
    return i


def _lookup_checks(u, s1, acc, sh, name, structure_ok=True):
    out = []
    if not structure_ok:
        # with a corrupt structure "the members" are ill-defined; one clause still is not: no task object is listed twice
        for wl in s1['R']:
            try:
                listed = [u.L(t) for t in u.wobj[wl].tasks]
            except Exception:
                continue
            acc.ev()
            if len(set(listed)) != len(listed):
                out.append(('C05', 'C05/tasks-lists-member-twice', f'{wl}.tasks = {listed}'))
        return out
    ids = []
    for v in s1['T'].values():
        if v['id'] not in ids:
            ids.append(v['id'])
    # ids no member has -- among them extreme and falsy ones (an implementation's own sentinels must not be found by a lookup)
    ids += [x for x in (987654, 'no-such-id', sys.maxsize, -sys.maxsize - 1, -1, 0, '', None) if x not in ids]
    for wl, roots in s1['R'].items():
        w = u.wobj[wl]
        members = reach(s1, roots)
        try:
            listed = [u.L(t) for t in w.tasks]
        except Exception as e:
            out.append(('C05', 'C05/tasks-raises', f'{wl}.tasks raised {type(e).__name__}'))
            continue
        acc.ev()
        if listed != members:
            out.append(('C05', 'C05/tasks-not-dfs', f'{wl}.tasks = {listed}, depth-first members = {members}'))
        for i in ids:
            want = [m for m in members if s1['T'][m]['id'] == i]
            acc.count('lookups')
            try:
                got = w[_fresh_key(i)]
                res = u.L(got)
            except RuntimeError:
                res = 'RuntimeError'
            except Exception as e:
                res = 'raise:' + type(e).__name__
            if len(members) >= 2:
                acc.sig(sh, 'lookup', bool(want))
            if len(want) == 1 and res != want[0]:
                out.append(('C05', 'C05/lookup-wrong-task', f'{wl}[{i!r}] -> {res}, member with that id: {want[0]}'))
            if len(want) == 0 and res != 'RuntimeError':
                out.append(('C05', 'C05/lookup-absent-id', f'{wl}[{i!r}] -> {res}, expected RuntimeError'))
    return out


# ------------------------------------------------------------------------------------------
# shard / replay entry points
# ------------------------------------------------------------------------------------------
# ------------------------------------------------------------------------------------------
# small-scope exhaustive layer (thorough tier): every single call from every collected base state
# ------------------------------------------------------------------------------------------
EXH_SPEC = {'tasks': [{'id': 1, 'name': 'n1'}, {'id': 2, 'name': 'n0'}, {'id': 3, 'name': 'n1'}, {'id': 1, 'name': 'n0'}], 'wbs': 2}


def all_single_calls(s):
    """every mutator x every argument tuple drawn from the 4-task / 2-WBS universe (indexes -1..len+1, None, pairs)"""
    T = list(s['T'])
    W = list(s['R'])
    H = [['t', t] for t in T] + [['w', w] for w in W]
    seqs = [[]] + [[a] for a in T] + [[a, b] for a in T for b in T]
    ops = []
    for t in T:
        for p in T + [None]:
            ops.append(['parent=', t, p])
    for h in H:
        for L in seqs:
            ops.append(['children=', h, L, 'list'])
        ops.append(['children=', h, [T[0], None], 'list'])
        ops.append(['children=', h, [T[1]], 'single'])
        ops.append(['children=', h, [T[2], T[3]], 'gen_raises'])
        for x in T:
            ops.append(['append', h, x])
            ops.append(['lremove', h, x])
            ops.append(['floordiv', h, [x], True])
            n = len(s['T'][h[1]]['children'] if h[0] == 't' else s['R'][h[1]])
            for i in range(-1, n + 2):
                ops.append(['insert', h, i, x])
            for a in T:
                ops.append(['move', h, [x], a, None, True])
                ops.append(['move', h, [x], None, a, True])
                ops.append(['move', h, [x], a, a, True])
                ops.append(['floordiv', h, [x, a], False])
            ops.append(['move', h, [x], None, None, True])
            ops.append(['bulk_parent', h, x])
            ops.append(['list_lshift', h, [x]])
            ops.append(['list_rshift', h, [x]])
        for a in T:
            for b in T:
                ops.append(['move', h, [a, b], T[0], None, False])
        for key in ('name', 'id', ['name', 'id'], 'nosuch'):
            for rev in (False, True):
                ops.append(['sort', h, key, rev])
        ids = [1, 2, 3, 99]
        for L in [[]] + [[a] for a in ids] + [[a, b] for a in ids for b in ids]:
            ops.append(['reorder', h, L])
        for flt in ({'kind': 'all'}, {'kind': 'id', 'id': 1}, {'kind': 'ids', 'ids': [1, 2], 'as': 'kw'}, {'kind': 'ids', 'ids': [3], 'as': 'callable'},
                    {'kind': 'name', 'name': 'n0'}, {'kind': 'raising', 'after': 1}, {'kind': 'int', 'value': 1}):
            ops.append(['remove_all', h, flt])
    for w in W:
        for x in T:
            ops.append(['wbs.remove', w, x])
        for flt in ({'kind': 'all'}, {'kind': 'id', 'id': 1}, {'kind': 'name', 'name': 'n1'}, {'kind': 'raising', 'after': 1}):
            ops.append(['wbs.remove_all', w, flt])
    for t in T:
        for L in seqs:
            ops.append(['preds=', t, L, 'list'])
            ops.append(['succs=', t, L, 'list'])
        ops.append(['preds=', t, [T[0], None], 'list'])
        ops.append(['succs=', t, [T[1], T[2]], 'gen_raises'])
        for x in T:
            for k in ('preds.append', 'succs.append', 'preds.remove', 'succs.remove'):
                ops.append([k, t, x])
            ops.append(['lshift', t, [x], True])
            ops.append(['rshift', t, [x], True])
            for y in T:
                ops.append(['lshift', t, [x, y], False])
                ops.append(['rshift', t, [x, y], False])
    return ops


def collect_base_states(seed, want):
    """distinct reachable states of the small universe (labelled snapshots), each with the call sequence that produced it"""
    states = {}
    idx = 0
    while len(states) < want and idx < want * 40:
        rnd = core.case_rng(seed, 0, idx, 'exh-base')
        idx += 1
        u = Universe(EXH_SPEC)
        ops = []
        s = snap(u)
        for _ in range(rnd.randint(0, 7)):
            op = gen_op(rnd, s, u)
            if op[0] in ('new', 'stale.get', 'stale.use'):
                continue
            ops.append(op)
            try:
                execute(u, op)
            except Exception:
                pass
            s = snap(u)
            if _polluted(s) or invariants(s):
                break
            key = core.jdump(graph.setlevel(s))
            if key not in states:
                states[key] = list(ops)
    return [states[k] for k in sorted(states)]


def run_exhaustive(prop, seed, shard, nshards, acc, max_seconds, want=320):
    import time
    t_end = time.time() + max_seconds
    bases = collect_base_states(seed, want)
    mine = bases[shard::nshards]
    done = 0
    for base in mine:
        if time.time() > t_end:
            acc.notes.append(f'exhaustive layer stopped by its time cap after {done} of {len(mine)} base states in shard {shard}')
            break
        u = Universe(EXH_SPEC)
        for op in base:
            try:
                execute(u, op)
            except Exception:
                pass
        s = snap(u)
        for op in all_single_calls(s):
            run_history(prop, EXH_SPEC, base + [op], acc, tail=False, judge_from=len(base), layer='exhaustive_')
        done += 1
        acc.count('exhaustive_base_states')
    return done, len(mine)


def run_shard(prop, tier, seed, shard, nshards, budget, acc):
    idx = 0
    import time
    if tier == 'thorough':
        run_exhaustive(prop, seed, shard, nshards, acc, max(30.0, (budget.deadline - time.time()) * 0.4), want=640)
    else:
        run_exhaustive(prop, seed, shard, nshards, acc, max(5.0, (budget.deadline - time.time()) * 0.3), want=48)
    while budget.more():
        rnd = core.case_rng(seed, shard, idx, 'hist')
        idx += 1
        spec = gen_universe(rnd, big=(tier == 'thorough' and rnd.random() < 0.5))
        length = rnd.randint(8, 40 if tier == 'thorough' else 24)
        executed, history = run_history(prop, spec, None, acc, gen=(rnd, length))
        acc.cases += 1
        if idx <= 2:
            acc.sample({'universe': spec, 'history (op, argument class, outcome)': history[:14]})


def run_case(prop, case, acc):
    if case.get('kind') == 'history':
        run_history(prop, case['spec'], case['ops'], acc)
        acc.cases += 1
    else:
        raise ValueError('unknown case kind ' + repr(case.get('kind')))
