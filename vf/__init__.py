"""Runtime-monitoring harness for pjplan (see /verif/DESIGN.md).

Nothing in this package imports pjplan at package-import time: `vf.env` must install the
controlled clock into the `datetime` module *before* pjplan is imported.
"""
