"""One shard (fresh interpreter).  argv: <prop> <tier> <seed> <shard> <nshards> <cases> <seconds> <out> [directed.json]"""
import importlib
import json
import sys
import traceback


def main():
    prop, tier, seed, shard, nshards, cases, seconds, out = sys.argv[1:9]
    seed, shard, nshards, cases, seconds = int(seed), int(shard), int(nshards), int(cases), float(seconds)
    directed = sys.argv[9] if len(sys.argv) > 9 else None
    import vf.env  # noqa: F401  (clock first, then pjplan)
    from vf import core, registry
    sys.setrecursionlimit(1000)
    import os
    from vf import cover
    covering = cover.start(os.path.dirname(vf.env.PJPLAN_FILE)) if not directed else False
    mod = importlib.import_module(registry.REG[prop][0])
    res = {'prop': prop, 'shard': shard}
    acc = None

    class SoftDeadline(BaseException):
        pass

    def _alarm(signum, frame):
        raise SoftDeadline()
    if not directed:
        # a shard that runs far over its budget (a defect that makes every call slower and slower) hands in what it has
        # seen so far before the runner's watchdog kills it: verdicts already reached must not be lost
        import signal
        signal.signal(signal.SIGALRM, _alarm)
        signal.alarm(int(seconds * 4 + 120))
    try:
        if directed:
            with open(directed) as f:
                entries = json.load(f)
            outl = []
            for e in entries:
                acc = core.Acc(prop)
                try:
                    mod.run_case(prop, core.jrevive(e['case']), acc)
                    outl.append({'id': e.get('id'), 'violations': acc.violations, 'evaluations': acc.evaluations,
                                 'counters': acc.counters})
                except Exception:
                    outl.append({'id': e.get('id'), 'error': traceback.format_exc()})
            res['directed'] = outl
        else:
            acc = core.Acc(prop)
            mod.run_shard(prop, tier, seed, shard, nshards, core.Budget(cases, seconds), acc)
            res.update(acc.result())
        if covering:
            cover.stop()
            res['cover'] = cover.hits()
        res['env'] = vf.env.repo_info() if shard == 0 else None
        res['clock_calls'] = vf.env.Clock.calls
    except SoftDeadline:
        if acc is not None:
            res.update(acc.result())
            res.setdefault('inconclusive', []).append(f'shard {shard} stopped at its soft deadline ({int(seconds * 4 + 120)} s): workload not completed')
        else:
            res['harness_error'] = 'soft deadline before the workload started'
    except BaseException:
        res['harness_error'] = traceback.format_exc()
    with open(out, 'w') as f:
        f.write(core.jdump(res))


if __name__ == '__main__':
    main()
