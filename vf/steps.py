"""Bounded-progress monitor for the part of calc that asks no resource (pre-flight checks, cloning, traversal):
counts PY_START events of every code object defined in pjplan/schedule.py (sys.monitoring local events, so other
code costs nothing) and aborts the call with StepBudgetExceeded when an armed budget is used up.  The capacity-query
budget of ProbeResource covers the rest of calc (DESIGN 5/C14)."""
import sys


class StepBudgetExceeded(BaseException):
    pass


_state = {'n': 0, 'limit': None, 'installed': False}


def _codes(mod):
    seen = set()
    out = []

    def walk(co):
        if id(co) in seen:
            return
        seen.add(id(co))
        out.append(co)
        for c in co.co_consts:
            if hasattr(c, 'co_code'):
                walk(c)

    def of(obj):
        f = getattr(obj, '__func__', obj)
        f = getattr(f, '__wrapped__', f)
        co = getattr(f, '__code__', None)
        if co is not None and co.co_filename == mod.__file__:
            walk(co)
        if isinstance(obj, property):
            for g in (obj.fget, obj.fset, obj.fdel):
                if g is not None:
                    of(g)
    for v in list(vars(mod).values()):
        if isinstance(v, type) and getattr(v, '__module__', None) == mod.__name__:
            for m in list(vars(v).values()):
                of(m)
        else:
            of(v)
    return out


def install():
    mon = getattr(sys, 'monitoring', None)
    if mon is None or _state['installed']:
        return _state['installed']
    import pjplan.schedule as mod
    try:
        mon.use_tool_id(mon.COVERAGE_ID, 'vf-steps')
    except ValueError:
        return False

    def on_start(code, offset):
        _state['n'] += 1
        lim = _state['limit']
        if lim is not None and _state['n'] > lim:
            _state['limit'] = None
            raise StepBudgetExceeded(_state['n'])
    mon.register_callback(mon.COVERAGE_ID, mon.events.PY_START, on_start)
    n = 0
    for co in _codes(mod):
        mon.set_local_events(mon.COVERAGE_ID, co, mon.events.PY_START)
        n += 1
    _state['installed'] = n > 0
    _state['codes'] = n
    return _state['installed']


def arm(limit):
    _state['n'] = 0
    _state['limit'] = limit


def disarm():
    _state['limit'] = None
    return _state['n']


def count():
    return _state['n']
