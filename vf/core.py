"""Shared plumbing: per-shard result accumulator, violation records, JSON helpers."""
import hashlib
import json
import time


def jdefault(o):
    import datetime as _dt
    if isinstance(o, _dt.datetime):
        return {'$dt': [o.year, o.month, o.day, o.hour, o.minute, o.second, o.microsecond]}
    if isinstance(o, _dt.timedelta):
        return {'$td': o.total_seconds()}
    if isinstance(o, (set, frozenset)):
        return sorted(o, key=repr)
    if isinstance(o, tuple):
        return list(o)
    return repr(o)


def jdump(o, **kw):
    return json.dumps(o, default=jdefault, ensure_ascii=True, **kw)


def jrevive(o):
    """Inverse of jdefault for datetimes (used by replay)."""
    from vf.env import REAL
    if isinstance(o, dict):
        if set(o.keys()) == {'$dt'}:
            return REAL(*o['$dt'])
        return {k: jrevive(v) for k, v in o.items()}
    if isinstance(o, list):
        return [jrevive(v) for v in o]
    return o


def h8(s):
    return hashlib.sha1(s.encode('utf-8', 'backslashreplace')).hexdigest()[:12]


class Acc:
    """Accumulates what one shard observed for one property."""

    def __init__(self, prop, max_samples=3, max_viol=40):
        self.prop = prop
        self.evaluations = 0
        self.sigs = set()          # hashes of distinct non-trivial case signatures
        self.counters = {}
        self.violations = []
        self.suppressed = {}
        self.samples = []
        self.max_samples = max_samples
        self.max_viol = max_viol
        self.notes = []
        self.inconclusive = []
        self.cases = 0
        self.t0 = time.time()

    def count(self, name, n=1):
        self.counters[name] = self.counters.get(name, 0) + n

    def sig(self, *parts):
        self.sigs.add(h8('|'.join(str(p) for p in parts)))

    def ev(self, n=1):
        self.evaluations += n

    def sample(self, s):
        if len(self.samples) < self.max_samples:
            self.samples.append(s)

    def violation(self, key, msg, case):
        """key: mechanism key (stable across seeds); case: JSON-able replay input."""
        self.count('violations_seen')
        per_key = sum(1 for v in self.violations if v['key'] == key)
        if per_key >= 3 or len(self.violations) >= self.max_viol:
            self.suppressed[key] = self.suppressed.get(key, 0) + 1
            return
        self.violations.append({'key': key, 'msg': msg, 'case': case})

    def result(self):
        return {
            'prop': self.prop, 'evaluations': self.evaluations, 'sigs': sorted(self.sigs),
            'counters': self.counters, 'violations': self.violations, 'more_violations': self.suppressed,
            'samples': self.samples, 'notes': self.notes, 'inconclusive': self.inconclusive,
            'cases': self.cases, 'wall_s': time.time() - self.t0,
        }


def case_rng(seed, shard, idx, salt=''):
    import random
    return random.Random(int(hashlib.sha1(f'{seed}/{shard}/{idx}/{salt}'.encode()).hexdigest()[:15], 16))


class Budget:
    """Caps a shard by number of cases and wall time."""

    def __init__(self, max_cases, max_seconds):
        self.max_cases = max_cases
        self.deadline = time.time() + max_seconds
        # on a loaded machine the wall-clock cap must not starve the workload below what the reached-or-inconclusive
        # counters need: a floor of cases is always run (the shard watchdog in the runner is far more generous)
        self.min_cases = min(max_cases, max(20, max_cases // 8))
        self.n = 0
        # enumerating layers (exhaustive small scope) stop here: they are meant to fit into the budget several times over
        self.hard_deadline = time.time() + 3 * max_seconds + 30

    def overdue(self):
        return time.time() > self.hard_deadline

    def more(self):
        if self.n >= self.max_cases:
            return False
        if time.time() > self.deadline and self.n >= self.min_cases:
            return False
        self.n += 1
        return True
