"""C17: calendars and the availability search (DESIGN 5/C17).

Four monitors over generated calendar ASTs:
  value      cal.get_available_units(d) == reference evaluator (vf.calast.ev)
  definition invalid definitions are rejected with RuntimeError, valid ones are accepted
  resource   Resource.get_available_units never returns None
  search     get_nearest_availability_date == brute force over whole-day offsets
"""
import vf.env  # noqa: F401
from vf.env import REAL, td, day
from vf import core, calast
from pjplan import WeeklyCalendar, DirectCalendar, FixedCalendar, Resource

META = {
    'C17': dict(level='exploration', required=['value_checks', 'search_checks', 'invalid_definitions', 'valid_definitions',
                                               'search_raises_expected', 'boundary_dates'],
                rule='calendar ASTs of depth <=4 (weekly list/dict, dated incl. set_units, fixed, numbers, + - * / |) with validity '
                     'bounds at arbitrary times of day; evaluated on boundary dates +-1us/+-1day, every weekday, times of day and '
                     'compared with the reference evaluator; every class of invalid definition must raise RuntimeError and its '
                     'valid neighbour must be accepted; Resource never returns None; availability search compared with brute force '
                     'for horizons 0..400 and the default, both directions. evaluations = value comparisons + definitions + '
                     'searches; non-trivial = operator AST or boundary date or search that skips >=1 day; distinct = (AST shape, '
                     'date class) / (definition class) / (direction, horizon class, outcome)',
                assumptions=['(expression, date) pairs where a divisor calendar evaluates to 0 have no value defined by the statement: '
                             'excluded from the value comparison and counted', 'numbers only as right operands (cal <op> number)',
                             'float comparison within 1e-9 relative']),
}
BASE = REAL(2026, 1, 5)
UNITS = [0, 1, 8, 2.5, 0.5, 3, 4]


def rdate(rnd, lo=-12, hi=22):
    return BASE + td(days=rnd.randint(lo, hi), hours=rnd.choice([0, 0, 0, 13, 23]), minutes=rnd.choice([0, 0, 59]),
                     microseconds=rnd.choice([0, 0, 999999, 1]))


def gen_ast(rnd, depth):
    if depth == 0 or rnd.random() < 0.4:
        c = rnd.randrange(4)
        if c == 0:
            st = rdate(rnd, -10, 5) if rnd.random() < 0.5 else None
            en = rdate(rnd, 6, 20) if rnd.random() < 0.5 else None
            return ['weekly', {'days': sorted(rnd.sample(range(7), rnd.randint(0, 7))), 'units': rnd.choice(UNITS), 'start': st, 'end': en}]
        if c == 1:
            st = rdate(rnd, -10, 5) if rnd.random() < 0.3 else None
            en = rdate(rnd, 6, 20) if rnd.random() < 0.3 else None
            return ['weeklyd', {'map': {str(d): rnd.choice(UNITS) for d in rnd.sample(range(7), rnd.randint(0, 7))}, 'start': st, 'end': en}]
        if c == 2:
            dates = [[rdate(rnd, -10, 20), rnd.choice(UNITS)] for _ in range(rnd.randint(0, 10))]
            extra = [[rdate(rnd, -10, 20), rnd.choice(UNITS)] for _ in range(rnd.randint(1, 4))] if rnd.random() < 0.4 else []
            # keep one value per calendar day inside each batch (dict comprehension order is not part of the statement)
            for lst in (dates, extra):
                seen = set()
                for x in list(lst):
                    if day(x[0]) in seen:
                        lst.remove(x)
                    seen.add(day(x[0]))
            return ['direct', dates, extra]
        st = rdate(rnd, -10, 5) if rnd.random() < 0.5 else None
        en = rdate(rnd, 6, 20) if rnd.random() < 0.5 else None
        return ['fixed', rnd.choice(UNITS), st, en]
    op = rnd.choice(['add', 'sub', 'mul', 'div', 'or'])
    a = gen_ast(rnd, depth - 1)
    if rnd.random() < 0.35:
        b = ['num', rnd.choice([0, 1, 2, 0.5, 3] if op != 'div' else [1, 2, 0.5, 3])]
    else:
        b = gen_ast(rnd, depth - 1)
    return [op, a, b]


def boundaries(ast, out):
    k = ast[0]
    if k in ('weekly', 'weeklyd'):
        for f in ('start', 'end'):
            if ast[1].get(f) is not None:
                out.append(ast[1][f])
    elif k == 'fixed':
        out += [x for x in ast[2:4] if x is not None]
    elif k == 'direct':
        out += [d for d, _ in ast[1]] + [d for d, _ in (ast[2] if len(ast) > 2 else [])]
    elif k != 'num':
        boundaries(ast[1], out)
        boundaries(ast[2], out)
    return out


def close(a, b):
    if a is None or b is None:
        return a is b
    return abs(a - b) <= 1e-9 * max(1.0, abs(a), abs(b))


# ------------------------------------------------------------------------------------------
def value_and_search(rnd, acc, case=None):
    if case is None:
        ast = gen_ast(rnd, rnd.choice([0, 1, 2, 3, 3, 4]))
        bs = boundaries(ast, [])
        dates = []
        for b in rnd.sample(bs, min(len(bs), 6)):
            dates += [(b, 'at-bound'), (b + td(microseconds=1), 'bound+1us'), (b - td(microseconds=1), 'bound-1us'),
                      (b + td(days=1), 'bound+1d'), (b - td(days=1), 'bound-1d'), (day(b), 'bound-midnight')]
        for k in range(7):
            dates.append((BASE + td(days=k, hours=rnd.choice([0, 9])), 'weekday'))
        for _ in range(6):
            dates.append((rdate(rnd, -15, 25), 'random'))
        searches = []
        for _ in range(4):
            searches.append([rdate(rnd, -15, 25), rnd.choice([1, -1]), rnd.choice([0, 1, 2, 7, 30, 400, None])])
        # a resource is named by whatever the tasks put into their resource field: a string, None (the default resource), a number
        case = {'kind': 'calendar', 'ast': ast, 'dates': [list(x) for x in dates], 'searches': searches,
                'resource_name': rnd.choice(['r', 'r', None, 0, 7, '']), 'alias_probe': rnd.random() < 0.25}
    ast = case['ast']
    shp = calast.shape(ast)
    try:
        kept = []
        parts = []
        cal = calast.build(ast, kept, parts)
        if case.get('alias_probe'):
            # the day lists and dicts handed to the constructors are the caller's: editing them afterwards (a template
            # that is reused for the next calendar) must not change what the calendar was configured with
            for c_ in kept:
                if isinstance(c_, dict):
                    for k_ in list(c_):
                        c_[k_] = 99
                    c_[3] = 99
                else:
                    c_.clear()
                    c_.extend([0, 1, 2, 3, 4, 5, 6])
            acc.count('constructor_alias_probes')
            # ... and what the accessors hand out is the caller's as well: a week table fetched to derive the next calendar from it
            # (or a list of dates) may be edited freely
            for _sub, obj_ in parts:
                for acc_name in ('get_week_day_hours', 'dates'):
                    f_ = getattr(obj_, acc_name, None)
                    if f_ is None:
                        continue
                    try:
                        got_c = f_() if callable(f_) else f_
                    except Exception:
                        continue
                    if isinstance(got_c, dict):
                        for k_ in list(got_c):
                            got_c[k_] = 77
                        got_c[5] = 77
                        acc.count('accessor_alias_probes')
                    elif isinstance(got_c, list):
                        got_c.clear()
                        acc.count('accessor_alias_probes')
    except Exception as e:
        acc.ev()
        acc.violation(f'C17/valid-definition-rejected/{type(e).__name__}', f'valid calendar expression {shp} rejected: {type(e).__name__}: {e}', case)
        return case
    # an operator builds a new calendar; the calendars it was given still mean what they meant (a planner keeps `base = a + b`
    # and derives `base + overtime` from it)
    for sub, obj in parts[:-1]:
        for d, cls in case['dates'][:6]:
            try:
                adm = calast.evs(sub, d)
            except calast.Undefined:
                continue
            try:
                got_ = obj.get_available_units(d)
            except Exception:
                continue
            acc.ev()
            acc.count('operand_checks')
            if not any(close(got_, e_) for e_ in adm):
                acc.violation(f'C17/operand-changed-by-operator/{ast[0]}', f'after building {shp}, its operand {calast.shape(sub)} answers {got_!r} for {d} (admissible {sorted(adm, key=repr)!r})', _one(case, d, cls))
                break
    for d, cls in case['dates']:
        try:
            exp = calast.ev(ast, d)
            admissible = calast.evs(ast, d)
        except calast.Undefined:
            acc.count('undefined_divisor_zero_pairs')
            continue
        if len(admissible) > 1:
            acc.count('pairs_with_several_admissible_values')
        try:
            got = cal.get_available_units(d)
            err = None
        except Exception as e:
            got, err = None, e
        acc.ev()
        acc.count('value_checks')
        if cls != 'random' and cls != 'weekday':
            acc.count('boundary_dates')
        if ast[0] not in ('weekly', 'weeklyd', 'direct', 'fixed') or cls.startswith('bound') or cls == 'at-bound':
            acc.sig('v', shp, cls)
        if err is not None:
            acc.violation(f'C17/value-raised-{type(err).__name__}/{ast[0]}', f'{shp}.get_available_units({d}) raised {type(err).__name__}: {err}', _one(case, d, cls))
        elif not any(close(got, e_) for e_ in admissible):
            acc.violation(f'C17/value/{_blame(ast, d)}/{cls}', f'{shp}.get_available_units({d}) = {got!r}, admissible {sorted(admissible, key=repr)!r}', _one(case, d, cls))
        # resource level
        r = Resource(case.get('resource_name', 'r'), cal)
        try:
            u = r.get_available_units(d)
            acc.count('resource_checks')
            if u is None or not any(close(u, 0 if e_ is None else e_) for e_ in admissible):
                acc.violation('C17/resource-units', f'Resource.get_available_units({d}) = {u!r}, calendar value {exp!r}', _one(case, d, cls))
        except Exception as e:
            acc.violation(f'C17/resource-raised-{type(e).__name__}', f'Resource.get_available_units({d}) raised {e}', _one(case, d, cls))
    # a resource answers from the calendar it has now: after its calendar was replaced (or a dated calendar was edited through
    # set_units) the dates asked before give the new answers
    if case['dates']:
        from pjplan import DirectCalendar, FixedCalendar
        r2 = Resource(case.get('resource_name', 'r'), cal)
        ds_ = [d for d, _c in case['dates'][:5]]
        for d in ds_:
            try:
                r2.get_available_units(d)
            except Exception:
                pass
        try:
            r2.get_nearest_availability_date(ds_[0], 1, 3)
        except Exception:
            pass
        r2.calendar = FixedCalendar(3.5)
        acc.ev()
        acc.count('resource_calendar_replacements')
        got_ = [r2.get_available_units(d) for d in ds_]
        if any(g_ != 3.5 for g_ in got_):
            acc.violation('C17/resource-units/after-calendar-replaced', f'after resource.calendar was replaced by a constant 3.5 calendar the resource answers {got_} for dates it was asked before', _one(case, ds_[0], 'random'))
        dc_ = DirectCalendar({ds_[0]: 2})
        r3 = Resource('r3', dc_)
        r3.get_available_units(ds_[0])
        dc_.set_units({ds_[0]: 6})
        if r3.get_available_units(ds_[0]) != 6:
            acc.violation('C17/resource-units/after-set_units', f'after set_units on its dated calendar the resource still answers {r3.get_available_units(ds_[0])!r} instead of 6', _one(case, ds_[0], 'random'))
    # search
    r = Resource(case.get('resource_name', 'r'), cal)
    for d0, dirn, md in case['searches']:
        horizon = 100000 if md is None else md
        exp = None
        undefined = False
        skipped = 0
        ambiguous = False
        try:
            for o in range(horizon):
                x = d0 + td(days=o * dirn)
                cs_ = calast.caps(ast, x if dirn > 0 else x - td(days=1))
                pos = {c_ > 0 for c_ in cs_}
                if len(pos) > 1:
                    ambiguous = True          # the statement admits readings with and without capacity on this day
                    break
                if True in pos:
                    exp = x
                    break
                skipped += 1
        except calast.Undefined:
            undefined = True
        if ambiguous:
            acc.count('search_ambiguous_skipped')
            continue
        if undefined:
            acc.count('search_undefined_skipped')
            continue
        try:
            got = r.get_nearest_availability_date(d0, dirn) if md is None else r.get_nearest_availability_date(d0, dirn, md)
            out = 'ok'
        except RuntimeError:
            got, out = None, 'RuntimeError'
        except Exception as e:
            got, out = None, type(e).__name__
        acc.ev()
        acc.count('search_checks')
        if exp is None:
            acc.count('search_raises_expected')
        if skipped or exp is None:
            acc.sig('s', dirn, 'default' if md is None else min(md, 31), exp is None, min(skipped, 8))
        one = dict(case, dates=[], searches=[[d0, dirn, md]])
        if out not in ('ok', 'RuntimeError'):
            acc.violation(f'C17/search-raised-{out}', f'search from {d0} dir {dirn} horizon {md} raised {out}', one)
        elif exp is None and out == 'ok':
            acc.violation(f'C17/search-returned-without-availability/dir{dirn}', f'search from {d0} dir {dirn} horizon {md} returned {got}, but no day within the horizon has capacity', one)
        elif exp is not None and out != 'ok':
            acc.violation(f'C17/search-raised-although-available/dir{dirn}', f'search from {d0} dir {dirn} horizon {md} raised RuntimeError, expected {exp}', one)
        elif exp is not None and got != exp:
            acc.violation(f'C17/search-wrong-date/dir{dirn}', f'search from {d0} dir {dirn} horizon {md} returned {got}, earliest/latest whole-day offset with capacity is {exp}', one)
    return case


def _one(case, d, cls):
    return dict(case, dates=[[d, cls]], searches=[])


def _blame(ast, d):
    """innermost sub-expression whose real value differs from the reference (mechanism key)"""
    try:
        if ast[0] in ('add', 'sub', 'mul', 'div', 'or'):
            for sub in (ast[1], ast[2]):
                if sub[0] == 'num':
                    continue
                try:
                    if not any(close(calast.build(sub).get_available_units(d), e_) for e_ in calast.evs(sub, d)):
                        return _blame(sub, d)
                except calast.Undefined:
                    pass
        if ast[0] == 'direct':
            return 'direct' + ('+set_units' if len(ast) > 2 and ast[2] else '')
        return ast[0]
    except Exception:
        return ast[0]


# ------------------------------------------------------------------------------------------
# definitions
# ------------------------------------------------------------------------------------------
def definition_cases(rnd):
    """list of (class, validity, thunk description) -- thunk descriptions are JSON-able"""
    d1 = BASE + td(days=rnd.randint(0, 5), hours=rnd.choice([0, 7]))
    d0 = d1 - td(days=rnd.randint(0, 5), hours=rnd.choice([0, 1]), microseconds=rnd.choice([1, 0, 500]))
    if d0 == d1:
        d0 = d1 - td(microseconds=1)
    badday = rnd.choice([7, -1, 9, 100])
    neg = rnd.choice([-1, -0.5, -8, -1e-9])
    pos = rnd.choice([0, 1, 8, 2.5])
    out = [
        ('weekday-out-of-range/list', False, ['weekly', {'days': [0, badday], 'units': 8}]),
        ('weekday-out-of-range/dict', False, ['weeklyd', {'map': {'0': 8, str(badday): 1}}]),
        ('negative-units/weekly-scalar', False, ['weekly', {'days': [0, 1], 'units': neg}]),
        ('negative-units/weekly-dict', False, ['weeklyd', {'map': {'0': 8, '3': neg}}]),
        ('negative-units/direct', False, ['direct', [[d1, neg]], []]),
        ('negative-units/direct-set_units', False, ['direct', [[d1, 1]], [[d1 + td(days=1), neg]]]),
        ('negative-units/fixed', False, ['fixed', neg, None, None]),
        ('start-after-end/weekly', False, ['weekly', {'days': [0, 1, 2], 'units': 8, 'start': d1, 'end': d0}]),
        ('start-after-end/weekly-dict', False, ['weeklyd', {'map': {'0': 8}, 'start': d1, 'end': d0}]),
        ('start-after-end/fixed', False, ['fixed', 3, d1, d0]),
        ('division-by-zero/int', False, ['div', ['weekly', {'days': [0], 'units': 8}], ['num', 0]]),
        ('division-by-zero/float', False, ['div', ['fixed', 3, None, None], ['num', 0.0]]),
        # valid neighbours
        ('weekday-in-range/list', True, ['weekly', {'days': [0, 6], 'units': 8}]),
        ('weekday-in-range/dict', True, ['weeklyd', {'map': {'0': 8, '6': 1}}]),
        ('nonnegative-units/direct', True, ['direct', [[d1, pos]], [[d1 + td(days=1), 0]]]),
        ('start-before-end/weekly', True, ['weekly', {'days': [0, 1, 2], 'units': 8, 'start': d0, 'end': d1}]),
        ('start-before-end/fixed', True, ['fixed', 3, d0, d1]),
        ('open-ended/weekly', True, ['weekly', {'days': [0], 'units': 8, 'start': d1, 'end': None}]),
        ('division-by-number', True, ['div', ['weekly', {'days': [0], 'units': 8}], ['num', rnd.choice([2, 0.5, 4])]]),
    ]
    return out


def check_rejected_edit(rnd, acc, case=None):
    """an edit that is rejected leaves the calendar exactly as configured, and the calendar stays usable"""
    from pjplan import DirectCalendar
    if case is None:
        d1 = BASE + td(days=rnd.randint(0, 5))
        d2, d3 = d1 + td(days=1), d1 + td(days=rnd.choice([2, 3]))
        first = {d1: rnd.choice([1, 8, 2.5]), d2: rnd.choice([0, 4])}
        bad = {d3: rnd.choice([3, 5]), (d2 if rnd.random() < 0.5 else d3 + td(days=1)): rnd.choice([-1, -0.5])}
        case = {'kind': 'rejected-edit', 'first': [[k, v] for k, v in first.items()], 'bad': [[k, v] for k, v in bad.items()]}
    first = {k: v for k, v in case['first']}
    bad = {k: v for k, v in case['bad']}
    d1, d2 = list(first)[:2]
    d3 = list(bad)[0]
    cal = DirectCalendar(dict(first))
    acc.ev()
    acc.count('rejected_edits')
    try:
        cal.set_units(dict(bad))
        acc.violation('C17/invalid-definition-accepted/negative-units/direct-set_units', 'set_units with a negative value accepted', case)
        return
    except RuntimeError:
        pass
    except Exception as e:
        acc.violation(f'C17/invalid-definition-raises-{type(e).__name__}/negative-units/direct-set_units', f'set_units with a negative value -> {type(e).__name__}', case)
        return
    for d in (d1, d2, d3, d3 + td(days=1)):
        want = first.get(d)
        got = cal.get_available_units(d)
        if not (got == want or (want is None and got in (None, 0))):
            acc.violation('C17/rejected-edit-changed-calendar', f'after a rejected set_units the calendar answers {got!r} for {d} (configured: {want!r})', case)
            return
    try:
        cal.set_units({d3: 6})
        if cal.get_available_units(d3) != 6:
            acc.violation('C17/value/direct/after-rejected-edit', f'valid set_units after a rejected one has no effect: {cal.get_available_units(d3)!r}', case)
    except Exception as e:
        acc.violation('C17/valid-definition-rejected/after-rejected-edit', f'a valid set_units after a rejected one raises {type(e).__name__}: {str(e)[:80]}', case)


def check_definition(cls, valid, ast, acc):
    try:
        calast.build(ast)
        out = 'accepted'
    except RuntimeError:
        out = 'RuntimeError'
    except Exception as e:
        out = type(e).__name__
    acc.ev()
    acc.count('valid_definitions' if valid else 'invalid_definitions')
    acc.sig('d', cls)
    case = {'kind': 'definition', 'class': cls, 'valid': valid, 'ast': ast}
    if valid and out != 'accepted':
        acc.violation(f'C17/valid-definition-rejected/{cls}', f'valid definition ({cls}) rejected with {out}', case)
    if not valid and out != 'RuntimeError':
        acc.violation(f'C17/invalid-definition-{"accepted" if out == "accepted" else "raises-" + out}/{cls}',
                      f'invalid definition ({cls}) -> {out}, expected RuntimeError', case)


def run_shard(prop, tier, seed, shard, nshards, budget, acc):
    idx = 0
    while budget.more():
        rnd = core.case_rng(seed, shard, idx, 'cal')
        idx += 1
        case = value_and_search(rnd, acc)
        if idx % 5 == 1:
            for cls, valid, ast in definition_cases(rnd):
                check_definition(cls, valid, ast, acc)
            check_rejected_edit(rnd, acc)
        acc.cases += 1
        if idx <= 2:
            acc.sample({'ast': case['ast'], 'dates': case['dates'][:4], 'searches': case['searches'][:2]})


def run_case(prop, case, acc):
    if case['kind'] == 'definition':
        check_definition(case['class'], case['valid'], case['ast'], acc)
    elif case['kind'] == 'rejected-edit':
        check_rejected_edit(None, acc, case)
    else:
        value_and_search(None, acc, case)
    acc.cases += 1
