"""Controlled clock (DESIGN 2.2) + import of the code under observation.

Import this module before anything imports pjplan.  It replaces `datetime.datetime` by a
subclass whose `now()` returns the harness-chosen instant and counts its calls; pjplan then
binds that class whatever import style it uses.  `isinstance(x, Clock)` is true for every plain
datetime, so pjplan's own isinstance tests behave as without the hook.
"""
import datetime as _dt
import os
import sys

REAL = _dt.datetime if not getattr(_dt.datetime, '_vf_clock', False) else _dt.datetime.__mro__[1]
td = _dt.timedelta


class _Meta(type(REAL)):
    def __instancecheck__(cls, obj):
        if cls is Clock:
            return type.__instancecheck__(REAL, obj)
        return type.__instancecheck__(cls, obj)

    def __subclasscheck__(cls, sub):
        if cls is Clock:
            return type.__subclasscheck__(REAL, sub)
        return type.__subclasscheck__(cls, sub)


class Clock(REAL, metaclass=_Meta):
    _vf_clock = True
    _now = REAL(2020, 1, 1)
    calls = 0

    @classmethod
    def now(cls, tz=None):
        Clock.calls += 1
        n = Clock._now
        return REAL(n.year, n.month, n.day, n.hour, n.minute, n.second, n.microsecond)

    @classmethod
    def today(cls):
        return cls.now()

    @classmethod
    def utcnow(cls):
        return cls.now()


if not getattr(_dt.datetime, '_vf_clock', False):
    if 'pjplan' in sys.modules:
        raise RuntimeError("vf.env must be imported before pjplan")
    _dt.datetime = Clock


def set_now(d):
    Clock._now = d


def plain(d):
    """A plain datetime equal to d (Clock instances print differently)."""
    if d is None:
        return None
    return REAL(d.year, d.month, d.day, d.hour, d.minute, d.second, d.microsecond)


def day(d):
    return REAL(d.year, d.month, d.day)


import pjplan  # noqa: E402

PJPLAN_FILE = os.path.realpath(pjplan.__file__)


def repo_info():
    import subprocess
    root = os.path.dirname(os.path.dirname(os.path.dirname(PJPLAN_FILE)))
    info = {'pjplan_file': PJPLAN_FILE}
    try:
        info['repo_head'] = subprocess.run(['git', '-C', root, 'rev-parse', 'HEAD'], capture_output=True,
                                           text=True, timeout=20).stdout.strip()
        info['repo_dirty'] = bool(subprocess.run(['git', '-C', root, 'status', '--porcelain', '--', 'src'],
                                                 capture_output=True, text=True, timeout=20).stdout.strip())
    except Exception as e:  # pragma: no cover
        info['repo_head'] = 'unknown:' + type(e).__name__
    return info
