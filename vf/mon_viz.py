"""C19: renderings (Mermaid Gantt, Mermaid network, DHTMLX Gantt, notebook representation).

The produced documents are parsed *as HTML first* (stdlib html.parser: text content of
div.mermaid, CDATA content of the <script> that calls gantt.parse), then by small line grammars for
the two Mermaid dialects and json.JSONDecoder.raw_decode, and the recovered multiset of
entries/edges is compared with the schedule (DESIGN 5/C19).
"""
import collections
import html
import json
import re
from html.parser import HTMLParser

import vf.env  # noqa: F401
from vf.env import REAL, td, set_now
from vf import core, sched
from pjplan import MermaidGantt, MermaidNetwork, DhtmlxGantt

META = {
    'C19': dict(level='exploration', required=['documents', 'hostile_name_cases', 'section_cases', 'milestone_entries', 'links_checked', 'repr_html_checks'],
                rule='forward schedules of W-SCHED cases (ids >= 1) whose task names are replaced by single-line strings over the '
                     'alphabet of D6 (letters, digits, space, \' " { } < > $ : and non-ASCII) incl. hostile fragments (<!--, '
                     '</script>, </div>, -->, ${x}, $$, }}); three clocks (before/inside/after the schedule); gantt_section and '
                     'style attributes. Each document is parsed as HTML, then by the line grammars / JSON decoder, and the '
                     'multiset of task lines, edges, JSON entries and links compared with the schedule; _repr_html_ must be the '
                     'HTML-escaped document. evaluations = documents judged; non-trivial = schedule with a hostile name, a '
                     'section or a dependency; distinct = (renderer, hostile fragment class, #tasks, sections, links)',
                assumptions=['Mermaid/DHTMLX own JavaScript parsers cannot run offline; replaced by the HTML parser of the standard '
                             'library plus line grammars', 'names are single-line strings and not None (D6)',
                             'sections required only when >= 2 distinct values exist']),
}
ALPHA_BENIGN = list('abcXYZ 019')
ALPHA = ALPHA_BENIGN + list('\'"{}<>$:') + list('éЖ日✓')
HOSTILE = ['<!--', '</script>', '<script>', '</div>', '}}', '-->', '${x}', '$$', '$src', '{{', ' --> 9{{z', '":"', '<b>', '<b', '</',
           '&lt;', '&amp;', '<![CDATA[', ']]>', '\\', '\\"', '</SCRIPT >']


class Doc(HTMLParser):
    def __init__(self):
        super().__init__(convert_charrefs=True)
        self.stack = []
        self.mermaid = []
        self.scripts = []
        self.script_types = []

    def handle_starttag(self, tag, attrs):
        if tag in ('meta', 'link', 'br', 'img', 'input', 'hr'):
            return
        self.stack.append((tag, dict(attrs)))
        if tag == 'script':
            self.scripts.append('')
            self.script_types.append(dict(attrs).get('type'))

    def handle_endtag(self, tag):
        for i in range(len(self.stack) - 1, -1, -1):
            if self.stack[i][0] == tag:
                del self.stack[i:]
                break

    def handle_data(self, data):
        if self.stack and self.stack[-1][0] == 'script':
            self.scripts[-1] += data
        elif any('mermaid' in (a.get('class') or '').split() for t, a in self.stack):
            self.mermaid.append(data)


def parse_doc(text):
    d = Doc()
    d.feed(text)
    d.close()
    return d


def rname(rnd, hostile):
    n = ''.join(rnd.choice(ALPHA if hostile else ALPHA_BENIGN) for _ in range(rnd.randint(1, 10)))
    frag = None
    if hostile and rnd.random() < 0.6:
        k = rnd.randrange(len(n) + 1)
        frag = rnd.choice(HOSTILE)
        n = n[:k] + frag + n[k:]
    return n, frag


GLINE = re.compile(r'^    (?P<name>[^:\n]*): (?P<state>(?:milestone,|done,|active,)?) id_(?P<id>-?\d+), '
                   r'(?P<s>\d\d\.\d\d\.\d{4} \d\d:\d\d), (?P<e>\d\d\.\d\d\.\d{4} \d\d:\d\d)$')
NODE = re.compile(r'(-?\d+)\{\{')


def fmt(d):
    return d.strftime('%d.%m.%Y %H:%M')


def find_gantt_json(d):
    """the JSON the DHTMLX document embeds: a script element of type application/json, or the first JSON object with
    "data" and "links" found after an opening brace inside a script.  returns (object or None, number found, last error)"""
    found = []
    err = ''
    for txt, typ in zip(d.scripts, d.script_types):
        if typ and 'json' in typ:
            try:
                o = json.loads(txt)
                if isinstance(o, dict) and 'data' in o and 'links' in o:
                    found.append(o)
            except ValueError as e:
                err = str(e)
            continue
        if '"data"' not in txt or '"links"' not in txt:
            continue
        i = 0
        dec = json.JSONDecoder()
        got_here = False
        while True:
            i = txt.find('{', i)
            if i < 0:
                break
            try:
                o, end = dec.raw_decode(txt, i)
            except ValueError as e:
                if not got_here and '"data"' in txt[i:i + 40]:
                    err = str(e)
                i += 1
                continue
            if isinstance(o, dict) and 'data' in o and 'links' in o:
                found.append(o)
                got_here = True
                i = end
            else:
                i += 1
    return (found[0] if len(found) == 1 else None), len(found), err


def _dh_date(txt):
    """instant (minute precision) of a date string in a DHTMLX entry; the textual format is not fixed by the property"""
    if not isinstance(txt, str):
        return None
    for f in ('%d-%m-%Y %H:%M', '%Y-%m-%d %H:%M', '%Y-%m-%dT%H:%M', '%d.%m.%Y %H:%M', '%Y-%m-%d %H:%M:%S', '%Y-%m-%dT%H:%M:%S', '%d-%m-%Y %H:%M:%S'):
        try:
            d = REAL.strptime(txt, f)
            return REAL(d.year, d.month, d.day, d.hour, d.minute)
        except ValueError:
            pass
    return None


def _plain(d):
    return REAL(d.year, d.month, d.day, d.hour, d.minute)


_DF_TOKENS = [('YYYY', r'(?P<Y>\d{4})'), ('MM', r'(?P<M>\d\d)'), ('DD', r'(?P<D>\d\d)'), ('HH', r'(?P<h>\d\d)'), ('mm', r'(?P<m>\d\d)')]
_TAGS = ('milestone', 'done', 'active', 'crit')


def _date_regex(fmt_):
    """regex for a Mermaid/dayjs dateFormat made of YYYY MM DD HH mm and literal separators"""
    out, i = '', 0
    while i < len(fmt_):
        for tok, rx in _DF_TOKENS:
            if fmt_.startswith(tok, i):
                out += rx
                i += len(tok)
                break
        else:
            out += re.escape(fmt_[i])
            i += 1
    return re.compile(out + r'$')


def _opts(case, R_):
    """documented constructor options (layout only: none of them adds, drops or changes an entry)"""
    o = (case.get('options') or {}).get(R_.__name__) or {}
    return dict(o)


def gen_options(rnd):
    if rnd.random() < 0.5:
        return {}
    return {'MermaidGantt': {k: v for k, v in (('title', rnd.choice([None, 'Plan 2026', 'Q1 roadmap'])), ('weekends', rnd.random() < 0.4),
                                               ('tick_interval', rnd.choice([None, None, '1week', '1day'])), ('height', rnd.choice([300, 120])))
                             if rnd.random() < 0.7},
            'MermaidNetwork': {'height': rnd.choice([300, 500])} if rnd.random() < 0.5 else {},
            'DhtmlxGantt': {k: v for k, v in (('today_marker', rnd.random() < 0.5), ('scale', rnd.choice(['day', 'week', 'month'])),
                                              ('row_height', rnd.choice([25, 40])), ('height', rnd.choice([300, 640])))
                            if rnd.random() < 0.6}}


def parse_gantt(src):
    """Mermaid gantt grammar (the subset the property speaks about): `dateFormat <fmt>`, `section <name>`, and task
    lines `<title> : [tag, ...] id_<id>, <start>, <end>` with free spacing.  Returns (Counter of (id, start, end,
    milestone)), unparsable task lines, {id: section})."""
    got = collections.Counter()
    bad = []
    sect_of = {}
    cur = None
    drx = _date_regex('DD.MM.YYYY HH:mm')
    for raw in src.split('\n'):
        line = raw.strip()
        if not line or line == 'gantt' or line.startswith('%%'):
            continue
        if line.startswith('dateFormat'):
            drx = _date_regex(line[len('dateFormat'):].strip())
            continue
        if line.startswith('section '):
            cur = line[len('section '):].strip()
            continue
        if re.match(r'(title|excludes|tickInterval|axisFormat|todayMarker|weekday|includes)\b', line):
            continue
        if ':' not in line:
            bad.append(raw)
            continue
        meta = [x.strip() for x in line.split(':', 1)[1].split(',')]
        # the two date fields may themselves contain ':' (HH:mm) but never ',' -- so the comma split is safe
        tags = []
        while meta and meta[0] in _TAGS:
            tags.append(meta.pop(0))
        if len(meta) != 3 or not re.fullmatch(r'id_-?\d+', meta[0]):
            bad.append(raw)
            continue
        ds = []
        for f in meta[1:]:
            m = drx.match(f)
            if not m:
                ds = None
                break
            g = m.groupdict()
            try:
                ds.append(REAL(int(g['Y']), int(g['M']), int(g['D']), int(g.get('h') or 0), int(g.get('m') or 0)))
            except (ValueError, KeyError, TypeError):
                ds = None
                break
        if ds is None:
            bad.append(raw)
            continue
        tid = int(meta[0][3:])
        got[(tid, ds[0], ds[1], 'milestone' in tags)] += 1
        sect_of[tid] = cur
    return got, bad, sect_of


_SHAPES = [('([', '])'), ('((', '))'), ('{{', '}}'), ('[[', ']]'), ('[(', ')]'), ('[/', '/]'), ('[', ']'), ('(', ')'), ('{', '}'), ('>', ']')]
_EDGE = re.compile(r'\s*(-\.->|-->|==>|---|-\.-|===|--o|--x)\s*(\|[^|]*\|)?\s*')
_ID = re.compile(r'\s*(-?\w+)')


def _node(line, pos):
    """node := id [shape-open label shape-close]; a quoted label may contain anything but a double quote.
    returns (id, label or None, end) or None"""
    m = _ID.match(line, pos)
    if not m:
        return None
    nid, end = m.group(1), m.end()
    for op_, cl in _SHAPES:
        if line.startswith(op_, end):
            start = end + len(op_)
            if line.startswith('"', start):
                q = line.find('"', start + 1)
                if q < 0 or not line.startswith(cl, q + 1):
                    return None
                return nid, line[start + 1:q], q + 1 + len(cl)
            k = line.find(cl, start)
            if k < 0:
                return None
            return nid, line[start:k], k + len(cl)
    return nid, None, end


def parse_network(src, task_ids):
    """Mermaid flowchart subset: node declarations, edges `A --> B`, `A -.-> B`, `A -->|label| B`, `A --> B & C`;
    `style`, `linkStyle`, `classDef`, `class`, `%%` lines ignored.  A node text ends at the first closing delimiter (that
    is what makes a name containing '}}' unreadable: F-V2).  The start node is any edge source that is not a task id.
    Returns (Counter of edges, unparsable lines)."""
    got = collections.Counter()
    bad = []
    for raw in src.split('\n'):
        line = raw.rstrip()
        st = line.strip()
        if not st or st.startswith(('flowchart', 'graph', 'style', 'linkStyle', 'classDef', 'class ', '%%', 'subgraph', 'end', 'direction', 'click')):
            continue
        a = _node(line, 0)
        if not a:
            bad.append(raw)
            continue
        pos = a[2]
        if not line[pos:].strip():
            continue                      # node declaration
        m = _EDGE.match(line, pos)
        if not m:
            bad.append(raw)
            continue
        pos = m.end()
        targets = []
        ok = True
        while True:
            b_ = _node(line, pos)
            if not b_:
                ok = False
                break
            targets.append(b_[0])
            pos = b_[2]
            m2 = re.match(r'\s*&\s*', line[pos:])
            if m2 and m2.end() > 0 and line[pos:].strip():
                pos += m2.end()
                continue
            break
        if not ok or line[pos:].strip():
            bad.append(raw)
            continue
        src_id = _as_int(a[0])
        for tg in targets:
            got[('S' if src_id not in task_ids else src_id, _as_int(tg))] += 1
    return got, bad


def _as_int(x):
    try:
        return int(x)
    except ValueError:
        return x


def frag_class(names):
    out = set()
    for n in names:
        for f, c in (('<!--', 'comment'), ('</script', 'endscript'), ('</SCRIPT', 'endscript'), ('<script', 'script'), ('</div', 'enddiv'),
                     ('}}', 'braces'), ('-->', 'arrow'), ('$', 'dollar'), ('<', 'lt'), ('&', 'amp'), ('"', 'dq'), ('\\', 'bs')):
            if f in n:
                out.add(c)
    return sorted(out)


def judge(case, acc):
    """case: {'sched': sched-case, 'names': {id: name}, 'sections': {id: s}, 'now': clock, 'styles': bool}"""
    sc = case['sched']
    b = sched.build(sc)
    set_now(sc['now'])
    try:
        res = sched.scheduler(sc, b).calc(b.wbs)
    except RuntimeError:
        acc.count('unschedulable')
        return
    s = res.schedule
    tasks = list(s.tasks)
    for t in tasks:
        t.name = case['names'][str(t.id)]
        if str(t.id) in case['sections']:
            t.gantt_section = case['sections'][str(t.id)]
        for k, v in (case.get('custom') or {}).get(str(t.id), {}).items():
            setattr(t, k, v)
        if case.get('styles') and t.id % 3 == 0:
            t.gantt_bar_style = {'fill': 'red'}
            t.network_bar_style = {'fill': '#f9f'}
    set_now(case['now'])
    renderers = {}
    if case.get('reuse'):
        # the renderer objects are created (and used once) before the WBS is edited: a later rendering shows the WBS as it
        # is then, not as it was when the renderer was constructed
        from pjplan import Task as _Task
        for R_ in (MermaidGantt, MermaidNetwork, DhtmlxGantt):
            try:
                renderers[R_] = R_(s, **_opts(case, R_))
                renderers[R_].to_html()
            except Exception:
                renderers.pop(R_, None)
        ref = tasks[0]
        extra = _Task(max(t.id for t in tasks) + 50, 'added later', start=ref.start, end=ref.end, estimate=1, spent=0)
        s.roots.append(extra)
        case['names'][str(extra.id)] = 'added later'
        tasks = list(s.tasks)
        acc.count('reused_renderers')

    def make(R_):
        return renderers.get(R_) or R_(s, **_opts(case, R_))
    names = [t.name for t in tasks]
    fc = frag_class(names)
    hostile = bool(fc)
    nlinks = sum(len(t.predecessors) for t in tasks)
    secs = {case['sections'].get(str(t.id), '-') for t in tasks}
    if hostile:
        acc.count('hostile_name_cases')
    if len(secs) >= 2:
        acc.count('section_cases')

    def sig(r):
        if hostile or len(secs) >= 2 or nlinks:
            acc.sig(r, fc, min(len(tasks), 6), len(secs) >= 2, min(nlinks, 3))

    def viol(key, msg):
        mech = ''
        acc.violation(f'C19/{key}{mech}', msg, case)

    def name_mech(bad_lines):
        """recorded finding F-V2: every unparsable edge line contains a name with '}}' (node text ends at the first '}}')"""
        shown = [t.name.replace('"', '') for t in tasks]
        braced = [n for n in shown if '}}' in n or n.endswith('}')]
        if bad_lines and braced and all(any(('{{' + n) in ln for n in braced) for ln in bad_lines):
            return '/name-with-closing-braces'
        return ''

    # ---------------------------------------------------------------- Mermaid gantt
    acc.ev()
    acc.count('documents')
    sig('gantt')
    try:
        doc = make(MermaidGantt).to_html()
        d = parse_doc(doc)
        got, bad, sect_of = parse_gantt(''.join(d.mermaid))
        exp = collections.Counter((t.id, t.start.replace(second=0, microsecond=0), t.end.replace(second=0, microsecond=0), bool(t.milestone)) for t in tasks)
        exp = collections.Counter({(k[0], _plain(k[1]), _plain(k[2]), k[3]): v for k, v in exp.items()})
        acc.count('milestone_entries', sum(1 for t in tasks if t.milestone))
        if bad or got != exp:
            viol('gantt/task-lines',
                 f'gantt task lines differ: unparsable {bad[:2]}, missing {list((exp - got).elements())[:3]}, extra {list((got - exp).elements())[:3]}')
        elif len(secs) >= 2:
            for t in tasks:
                want = str(case['sections'].get(str(t.id), '-'))
                if sect_of.get(t.id) != want and not (want == '-' and sect_of.get(t.id) is None):
                    viol('gantt/section', f'task {t.id} under section {sect_of.get(t.id)!r}, expected {want!r}')
                    break
    except Exception as e:
        viol(f'gantt/raised-{type(e).__name__}', f'MermaidGantt raised {type(e).__name__}: {str(e)[:100]}')

    # ---------------------------------------------------------------- Mermaid network
    acc.ev()
    acc.count('documents')
    sig('network')
    try:
        doc = make(MermaidNetwork).to_html()
        d = parse_doc(doc)
        # nodes that are tasks: the members and the outside tasks they depend on (the start node is the other source)
        got, bad = parse_network(''.join(d.mermaid), {t.id for t in tasks} | {p.id for t in tasks for p in t.predecessors})
        exp = collections.Counter()
        for t in tasks:
            if len(t.predecessors) == 0:
                exp[('S', t.id)] += 1
            for p in t.predecessors:
                exp[(p.id, t.id)] += 1
        acc.count('links_checked', nlinks)
        if not bad and got != exp and 0 in ({t.id for t in tasks} | {p.id for t in tasks for p in t.predecessors}) and \
                all(k[0] in ('S', 0) for k in list((exp - got).elements()) + list((got - exp).elements())):
            # recorded finding F-V3: the start node is written with the node id 0, which is also a legal task id (of a member or of
            # an outside task a member waits for)
            viol('network/edges/task-id-0-collides-with-start-node',
                 f'a task has id 0, the id of the Start node: missing {list((exp - got).elements())[:3]}, extra {list((got - exp).elements())[:3]}')
        elif bad or got != exp:
            viol('network/edges' + name_mech(bad),
                 f'network edges differ: unparsable {bad[:2]}, missing {list((exp - got).elements())[:3]}, extra {list((got - exp).elements())[:3]}')
    except Exception as e:
        viol(f'network/raised-{type(e).__name__}', f'MermaidNetwork raised {type(e).__name__}: {str(e)[:100]}')

    # ---------------------------------------------------------------- DHTMLX
    acc.ev()
    acc.count('documents')
    sig('dhtmlx')
    try:
        doc = make(DhtmlxGantt).to_html()
        d = parse_doc(doc)
        obj, n_found, err = find_gantt_json(d)
        if True:
            if n_found == 0:
                viol('dhtmlx/json-malformed', f'no well-formed JSON object with "data" and "links" is embedded in a script element ({err})')
            elif n_found > 1:
                viol('dhtmlx/script', f'{n_found} embedded JSON objects with "data" and "links" (expected 1)')
                obj = None
            if obj is not None:
                ids = collections.Counter(e['id'] for e in obj['data'])
                if ids != collections.Counter(t.id for t in tasks):
                    viol('dhtmlx/entries', f'entries {dict(ids)} vs tasks {[t.id for t in tasks]}')
                else:
                    tm = {t.id: t for t in tasks}
                    for e in obj['data']:
                        t = tm[e['id']]
                        if e.get('text') != t.name:
                            viol('dhtmlx/name', f'entry {t.id} text {e.get("text")!r} != name {t.name!r}')
                        if _dh_date(e.get('start_date')) != _plain(t.start) or _dh_date(e.get('end_date')) != _plain(t.end):
                            viol('dhtmlx/dates', f'entry {t.id} dates {e.get("start_date")}..{e.get("end_date")} vs {t.start}..{t.end}')
                        if e.get('parent') != (t.parent.id if t.parent else 0):
                            viol('dhtmlx/parent', f'entry {t.id} parent {e.get("parent")!r} vs {t.parent.id if t.parent else 0}')
                        pr = e.get('progress')
                        if not isinstance(pr, (int, float)) or not (0 <= pr <= 1):
                            viol('dhtmlx/progress', f'entry {t.id} progress {pr!r}')
                lk = collections.Counter((l_['source'], l_['target']) for l_ in obj['links'])
                if lk != collections.Counter((p.id, t.id) for t in tasks for p in t.predecessors):
                    viol('dhtmlx/links', f'links {dict(lk)}')
                if len(set(l_['id'] for l_ in obj['links'])) != len(obj['links']):
                    viol('dhtmlx/link-ids-not-unique', f'link ids {[l_["id"] for l_ in obj["links"]]}')
    except Exception as e:
        viol(f'dhtmlx/raised-{type(e).__name__}', f'DhtmlxGantt raised {type(e).__name__}: {str(e)[:100]}')

    # ---------------------------------------------------------------- notebook representation
    for R in (MermaidGantt, MermaidNetwork, DhtmlxGantt):
        try:
            r = make(R)
            h = r._repr_html_()
            doc = r.to_html()
        except Exception:
            continue
        acc.ev()
        acc.count('repr_html_checks')
        # the attribute value must survive an HTML parser: an iframe whose srcdoc, decoded, is exactly to_html()
        class A(HTMLParser):
            val = None
            n = 0

            def handle_starttag(self, tag, attrs):
                if tag == 'iframe':
                    A.n += 1
                    if A.val is None:
                        A.val = dict(attrs).get('srcdoc')
        A.val = None
        A.n = 0
        a = A(convert_charrefs=True)
        a.feed(h)
        a.close()
        if A.n != 1 or A.val != doc:
            viol(f'repr-html/{R.__name__}', '_repr_html_() is not one iframe whose srcdoc attribute, decoded by an HTML parser, equals to_html()')


def _shift(o, delta):
    """the same plan some whole weeks earlier or later (every date of the case moves, weekdays stay)"""
    if isinstance(o, REAL):
        return o + delta
    if isinstance(o, dict):
        return {k: _shift(v, delta) for k, v in o.items()}
    if isinstance(o, list):
        return [_shift(v, delta) for v in o]
    if isinstance(o, tuple):
        return tuple(_shift(v, delta) for v in o)
    return o


def gen_case(rnd):
    sc = sched.gen_case(rnd, 'fwd', n_max=7, fixed=False, externals=rnd.random() < 0.3)
    if rnd.random() < 0.3:
        # a plan that runs over the turn of the year (the last days of December belong to week 1 of the next ISO year)
        sc = _shift(sc, td(days=-7 * rnd.choice([1, 1, 2, 53])))
    if rnd.random() < 0.25:
        # ids whose decimal spellings are prefixes and concatenations of each other (1, 11, 12, 112, ...): whatever a renderer
        # derives from ids -- node names, link keys -- must keep such tasks and links apart
        pool = [1, 11, 12, 2, 112, 21, 121, 111, 1121]
        rnd.shuffle(pool)
        for t_, i_ in zip(sc['tasks'], pool):
            t_['id'] = i_
        if len(sc['tasks']) >= 4 and rnd.random() < 0.5:
            by = {t_['id']: k_ for k_, t_ in enumerate(sc['tasks'])}
            for a_, b_ in rnd.choice([[(11, 2), (1, 12)], [(12, 1), (1, 21)], [(11, 21), (112, 1)], [(2, 11), (21, 1)]]):
                if a_ in by and b_ in by:
                    s_, p_ = by[b_], by[a_]          # task b_ waits for task a_
                    if s_ in sched.ancestors_of(sc['tasks'], p_) or p_ in sched.ancestors_of(sc['tasks'], s_) or [s_, p_] in sc['links']:
                        continue
                    sc['links'].append([s_, p_])
                    if sched.plain_cycle(sc['tasks'], sc['links']) or sched.effective_cycle(sc['tasks'], sc['links']):
                        sc['links'].pop()
    for k_, e_ in enumerate(sc.get('externals') or []):
        e_['via_removed_branch'] = False
        e_['kid'] = None
        if any(t['id'] == e_['id'] for t in sc['tasks']):
            e_['id'] = 500 + k_      # (an outside task that shares a member's id would share its node in a diagram keyed by id)
    sc['now'] = REAL(2020, 1, 1)
    hostile = rnd.random() < 0.6
    names, sections = {}, {}
    for t in sc['tasks']:
        names[str(t['id'])] = rname(rnd, hostile and rnd.random() < 0.5)[0]
    if rnd.random() < 0.4:
        for t in sc['tasks']:
            if rnd.random() < 0.6:
                sections[str(t['id'])] = rnd.choice(['S1', 'S2', 'Phase A', 'S1', 'S2', 0])     # a number is a section name too
    now = rnd.choice([REAL(2020, 1, 1), sc['date'] + td(days=2, hours=10), REAL(2030, 1, 1)])
    custom = {}
    if rnd.random() < 0.4:
        # user attributes whose names resemble renderer keys (different case) or look like markup
        for t in sc['tasks']:
            if rnd.random() < 0.5:
                custom[str(t['id'])] = {rnd.choice(['ID', 'Parent', 'Type', 'Progress', 'Text', 'note', 'Start_date', 'End_Date', 'Open', 'Id']):
                                        rnd.choice(['JIRA-101', '25%', 'x', '</script>', 7, None])}
    return {'kind': 'viz', 'sched': sc, 'names': names, 'sections': sections, 'now': now, 'styles': rnd.random() < 0.3, 'custom': custom,
            'reuse': rnd.random() < 0.2, 'options': gen_options(rnd)}


def run_shard(prop, tier, seed, shard, nshards, budget, acc):
    idx = 0
    while budget.more():
        rnd = core.case_rng(seed, shard, idx, 'viz')
        idx += 1
        case = gen_case(rnd)
        judge(case, acc)
        acc.cases += 1
        if idx <= 2:
            acc.sample({'names': case['names'], 'sections': case['sections'], 'clock': case['now'], 'n_tasks': len(case['sched']['tasks']),
                        'links': case['sched']['links']})


def run_case(prop, case, acc):
    judge(case, acc)
    acc.cases += 1
