"""C10: WBS.clone / WBS.subtree produce faithful, independent copies (DESIGN 5/C10).

States are produced by W-HIST prefixes over a universe with two WBSs and detached tasks (so that
links leaving the WBS exist); three observations (source before, source after, copy) are compared
through public getters, followed by a tail of mutations applied alternately to either side while
the other side is re-observed."""
import vf.env  # noqa: F401
from vf import core, graph, mon_graph
from vf.graph import Universe, snap, invariants, execute
from pjplan import Task

META = {
    'C10': dict(level='exploration', required=['clones', 'subtrees', 'external_link_cases', 'summary_link_cases', 'wbs_attr_cases', 'subtree_cut_link_cases', 'tail_mutations'],
                rule='reachable states of W-HIST prefixes (2-3 WBSs plus detached tasks, ids shared between trees, custom attributes, '
                     'WBS-level attributes); clone() of every non-empty WBS and subtree() of antichain selections; copy compared with '
                     'the source (ids, DFS order, hierarchy, sibling order, fields + custom attributes, internal link sets, links to '
                     'outside tasks by object identity, owner, WBS attributes), source re-observed, 4-8 later mutations on either '
                     'side must not show on the other. evaluations = copies judged; non-trivial = source with a link or depth>=1; '
                     'distinct = (shape, #external links, kind, selection size)',
                assumptions=['selections are antichains (a task together with its own descendant is excluded and counted)',
                             'attribute values are immutable objects (D7)', 'states that violate C01 are not cloned']),
}


def public_task(t, member_ids):
    """(structure by id, attrs, external links by object identity)"""
    return {
        'id': t.id, 'parent': t.parent.id if t.parent else None, 'children': [c.id for c in t.children],
        'preds_in': sorted(repr(p.id) for p in t.predecessors if id(p) in member_ids),
        'succs_in': sorted(repr(p.id) for p in t.successors if id(p) in member_ids),
        'preds_out': sorted(id(p) for p in t.predecessors if id(p) not in member_ids),
        'succs_out': sorted(id(p) for p in t.successors if id(p) not in member_ids),
        'attrs': graph.public_fields(t, graph.CUSTOM_NAMES),
        'estimate': t.estimate, 'spent': t.spent,
    }


WBS_ATTR_NAMES = graph.CUSTOM_NAMES + ('critical_path', 'print', 'remove_all', 'focus', 'on_change')


def wattr_view(w):
    """public attributes the workload sets on a WBS itself, read the way a user reads them (also names that a WBS method
    carries: the value the user stored must come back, not the method)"""
    out = []
    for k in WBS_ATTR_NAMES:
        v = getattr(w, k, _ABSENT)
        if v is _ABSENT:
            continue
        if getattr(v, '__self__', None) is w and getattr(type(w), k, None) is getattr(v, '__func__', _ABSENT):
            continue              # the class's own method: nothing was stored under that name
        # values are carried over as they are: functions, classes and task lists by identity, plain values by their text
        out.append((k, ('object', id(v)) if callable(v) else repr(v)))
    return tuple(sorted(out, key=repr))


_ABSENT = object()


def _wattr_value(w, v):
    """JSON-able markers for attribute values that are objects"""
    if v == '#function':
        return _a_function
    if v == '#class':
        return _AClass
    if v == '#tasklist':
        return w.tasks(lambda t: True)      # a pjplan task list kept on the plan ("the tasks I am looking at")
    return v


def _a_function(x=None):
    return x


class _AClass:
    pass


def describe(w):
    ts = list(w.tasks)
    ids = {id(t) for t in ts}
    return [public_task(t, ids) for t in ts], [t.id for t in w.roots], \
        wattr_view(w)


def expected_subtree(w, sel):
    """description the subtree copy must have: selected tasks + descendants, roots = selection, links inside the
    selection kept, links to other members dropped, links to outside tasks kept"""
    members = {id(t) for t in w.tasks}
    chosen = []
    for r in sel:
        chosen.append(r)
        chosen += list(r.all_children)
    cid = {id(t) for t in chosen}
    out = []
    for t in chosen:
        d = public_task(t, cid)
        # links to members that are not selected disappear
        d['preds_out'] = sorted(id(p) for p in t.predecessors if id(p) not in members)
        d['succs_out'] = sorted(id(p) for p in t.successors if id(p) not in members)
        if any(t is r for r in sel):
            d['parent'] = None
        out.append(d)
    return out, [r.id for r in sel]


def first_diff(a, b):
    if [x['id'] for x in a] != [x['id'] for x in b]:
        return 'ids-or-order', f"{[x['id'] for x in a]} -> {[x['id'] for x in b]}"
    for x, y in zip(a, b):
        for f in ('parent', 'children', 'attrs', 'estimate', 'spent', 'preds_in', 'succs_in', 'preds_out', 'succs_out'):
            if x[f] != y[f]:
                kind = {'parent': 'hierarchy', 'children': 'hierarchy', 'attrs': 'fields', 'estimate': 'fields', 'spent': 'fields',
                        'preds_in': 'internal-links', 'succs_in': 'internal-links', 'preds_out': 'external-links', 'succs_out': 'external-links'}[f]
                return kind, f"task {x['id']}.{f}: {x[f]!r} -> {y[f]!r}"
    return None


def prepare(case):
    u = Universe(case['spec'])
    for i, t in enumerate(u.tasks):
        a = case['attrs'][i] if i < len(case['attrs']) else {}
        for k, v in a.items():
            setattr(t, k, v)
    for i, w in enumerate(u.wbss):
        for k, v in (case['wattrs'][i] if i < len(case['wattrs']) else {}).items():
            setattr(w, k, _wattr_value(w, v))
    for op in case['ops']:
        try:
            execute(u, op)
        except Exception:
            pass
    return u


def judge(case, acc):
    u0 = prepare(case)
    s0 = snap(u0)
    if mon_graph._polluted(s0) or any(p_ == 'C01' for p_, _, _ in invariants(s0)):
        acc.count('skipped_broken_state')
        return
    for kind in case['kinds']:
        for wi in range(len(u0.wbss)):
            if case.get('only_wbs') is not None and case['only_wbs'] != wi:
                continue
            _judge_one(case, kind, wi, acc)


def _judge_one(case, kind, wi, acc):
    u = prepare(case)      # fresh, identical state for every (kind, WBS) pair so that replays are faithful
    s = snap(u)
    w = u.wbss[wi]
    for _once in (1,):
        members = list(w.tasks)
        if not members:
            # an empty WBS (or an empty selection) still has to carry the public attributes of the WBS
            wa = wattr_view(w)
            if kind == 'subtree' and case.get('sel_form') not in (None, 'list'):
                continue
            acc.ev()
            acc.count('empty_copies')
            try:
                c0 = w.clone() if kind == 'clone' else w.subtree([])
            except Exception as e:
                acc.violation(f'C10/{kind}-raised-{type(e).__name__}/empty', f'{kind} of an empty WBS/selection raised {type(e).__name__}: {str(e)[:80]}', dict(case, kinds=[kind], only_wbs=wi))
                continue
            ca = wattr_view(c0)
            if ca != wa or list(c0.tasks):
                acc.violation(f'C10/{kind}/wbs-attributes/empty', f'{kind} of an empty WBS/selection: attributes {ca} vs source {wa}, tasks {len(list(c0.tasks))}', dict(case, kinds=[kind], only_wbs=wi))
            continue
        if kind == 'subtree' and case.get('empty_selection'):
            acc.ev()
            acc.count('empty_copies')
            wa = wattr_view(w)
            try:
                c0 = w.subtree([])
                ca = wattr_view(c0)
                if ca != wa or list(c0.tasks):
                    acc.violation('C10/subtree/wbs-attributes/empty', f'subtree([]) : attributes {ca} vs source {wa}, tasks {len(list(c0.tasks))}', dict(case, kinds=[kind], only_wbs=wi))
            except Exception as e:
                acc.violation(f'C10/subtree-raised-{type(e).__name__}/empty', f'subtree([]) raised {type(e).__name__}: {str(e)[:80]}', dict(case, kinds=[kind], only_wbs=wi))
            continue
        mid = {id(t) for t in members}
        ext = sum(1 for t in members for p in list(t.predecessors) + list(t.successors) if id(p) not in mid)
        ext_same_id = any(p.id in {m.id for m in members} for t in members for p in list(t.predecessors) + list(t.successors) if id(p) not in mid)
        summary_links = any(len(t.children) and (len(t.predecessors) or len(t.successors)) for t in members)
        depth = max(len(list(t.all_parents)) for t in members)
        haslink = any(len(t.predecessors) for t in members)
        wattr = bool([k for k in w.__dict__ if not k.startswith('_')])
        for _once2 in (1,):
            if kind == 'clone':
                sel = None
            else:
                sel = _selection(case, members, wi)
                if not sel:
                    continue
            before = describe(w)
            outside_before = _outside(u, mid)
            one = dict(case, kinds=[kind], only_wbs=wi)
            acc.ev()
            acc.count('clones' if kind == 'clone' else 'subtrees')
            if ext:
                acc.count('external_link_cases')
            if summary_links:
                acc.count('summary_link_cases')
            if wattr:
                acc.count('wbs_attr_cases')
            if haslink or depth:
                acc.sig(mon_graph.shape(s), min(ext, 3), kind, len(sel) if sel else 0, ext_same_id)
            try:
                form = 'none' if kind == 'clone' else (case.get('sel_form') or ('list' if len(sel) > 1 or case['sel_as_list'] else 'single'))
                given = list(sel or [])
                if kind == 'subtree' and case.get('sel_repeat') and form in ('list', 'tuple', 'generator', 'filter'):
                    # the same task named twice is still that one task ("exactly the given tasks and their descendants")
                    # (named twice in a row, so that the order of the roots does not depend on which mention counts)
                    k_ = case['sel_repeat'] % len(sel)
                    given = list(sel[:k_ + 1]) + list(sel[k_:])
                    acc.count('selections_naming_a_task_twice')
                arg = {'none': lambda: None, 'list': lambda: list(given), 'tuple': lambda: tuple(given), 'single': lambda: sel[0] if len(sel) == 1 else list(sel),
                       'generator': lambda: (x for x in given), 'filter': lambda: filter(lambda x: True, given),
                       'tasklist': lambda: w.tasks(lambda t, ids={id(x) for x in sel}: id(t) in ids) if _dfs_ordered(w, sel) else list(sel)}[form]()
                c = w.clone() if kind == 'clone' else w.subtree(arg)
            except Exception as e:
                acc.violation(f'C10/{kind}-raised-{type(e).__name__}', f'{kind} raised {type(e).__name__}: {str(e)[:100]}', one)
                continue
            after = describe(w)
            mech = '/external-link-with-member-id' if ext_same_id else ''
            if after != before:
                d = first_diff(before[0], after[0]) or ('roots-or-attrs', '')
                acc.violation(f'C10/{kind}/source-changed/{d[0]}', f'source WBS changed by {kind}: {d[1]}', one)
                continue
            if _outside(u, mid, ignore_unknown=True) != outside_before:
                acc.violation(f'C10/{kind}/outside-task-changed', 'a task outside the source WBS changed (other than gaining links to the copy)', one)
            cm = list(c.tasks)
            if any(id(t) in mid for t in cm):
                acc.violation(f'C10/{kind}/shared-task-object', 'copy contains task objects of the source', one)
                continue
            if kind == 'clone':
                want, want_roots = before[0], before[1]
            else:
                want, want_roots = expected_subtree(w, sel)
                cut = any(id(p) in mid and id(p) not in {id(x) for r in sel for x in [r] + list(r.all_children)}
                          for r in sel for x in [r] + list(r.all_children) for p in list(x.predecessors) + list(x.successors))
                if cut:
                    acc.count('subtree_cut_link_cases')
            got = describe(c)
            d = first_diff(want, got[0])
            if d:
                acc.violation(f'C10/{kind}/copy-differs/{d[0]}{mech if d[0] in ("external-links", "internal-links") else ""}', f'{kind} copy differs from source: {d[1]}', one)
                continue
            if got[1] != want_roots:
                acc.violation(f'C10/{kind}/roots', f'copy roots {got[1]} vs {want_roots}', one)
            if any(t.wbs is not c for t in cm):
                acc.violation(f'C10/{kind}/owner', 'a copied task does not report the new WBS as owner', one)
            if got[2] != before[2]:
                acc.violation(f'C10/{kind}/wbs-attributes', f'WBS attributes {got[2]} vs source {before[2]}', one)
            # independence tail
            _tail(case, w, c, acc, one, kind)


def _dfs_ordered(w, sel):
    order = [id(t) for t in w.tasks]
    pos = [order.index(id(x)) for x in sel]
    return pos == sorted(pos)


def _outside(u, mid, ignore_unknown=False):
    out = []
    for t in u.tasks:
        if id(t) in mid:
            continue
        known = set(u.lab)
        out.append((u.L(t), graph.public_fields(t, graph.CUSTOM_NAMES),
                    tuple(u.L(p) for p in t.predecessors if id(p) in known), tuple(u.L(p) for p in t.successors if id(p) in known),
                    u.L(t.parent), tuple(u.L(x) for x in t.children), u.WL(t.wbs)))
    return out


def _selection(case, members, wi):
    picks = case['sel'][wi % len(case['sel'])]
    sel = []
    for k in picks:
        t = members[k % len(members)]
        if any(t is x for x in sel):
            continue
        if any(t in list(x.all_children) or x in list(t.all_children) for x in sel):
            continue
        sel.append(t)
    return sel


def _tail(case, w, c, acc, one, kind):
    sides = [('source', w, c), ('copy', c, w)]
    for k, step in enumerate(case['tail']):
        name, side, other = sides[k % 2]
        ts = list(side.tasks)
        if not ts:
            continue
        before = describe(other)
        t = ts[step[1] % len(ts)]
        x = ts[step[2] % len(ts)]
        op = step[0]
        try:
            if op == 'rename':
                t.name = f'renamed{k}'
            elif op == 'attr':
                t.extra = k
            elif op == 'estimate':
                t.estimate = 7 + k
            elif op == 'remove':
                side.remove(t)
            elif op == 'remove_other':
                # asked to remove a task that belongs to the other side (a nested one as a rule): not its business
                ots = list(other.tasks)
                deep = [q for q in ots if q.parent is not None] or ots
                if deep:
                    side.remove(deep[step[1] % len(deep)])
            elif op == 'link':
                t.predecessors.append(x)
            elif op == 'unlink':
                if len(t.predecessors):
                    t.predecessors.remove(t.predecessors[0])
            elif op == 'append':
                t.children.append(Task(1000 + k, 'new'))
            elif op == 'reparent':
                x.parent = t
            elif op == 'sort':
                side.roots.sort('id', reverse=True)
            elif op == 'wattr':
                side.stamp = k
            elif op == 'clear_links':
                t.successors = []
        except (RuntimeError, TypeError):      # TypeError: sorting ids of mixed kinds
            pass
        acc.count('tail_mutations')
        after = describe(other)
        if after != before:
            d = first_diff(before[0], after[0]) or ('roots-or-attrs', f'{before[1:]} -> {after[1:]}')
            acc.violation(f'C10/{kind}/not-independent/{op}', f'{op} on the {name} shows on the other side: {d[1]}', one)
            return


TAIL_OPS = ['rename', 'attr', 'estimate', 'remove', 'link', 'unlink', 'append', 'reparent', 'sort', 'wattr', 'clear_links', 'remove_other']


def gen_case(rnd, tier='quick'):
    spec = mon_graph.gen_universe(rnd, big=True)
    if len(spec['wbs']) < 2:
        spec['wbs'] = [{}, {}]
    n = len(spec['tasks'])
    attrs = [({'x': rnd.choice([None, 'a', 5])} if rnd.random() < 0.5 else {}) for _ in range(n)]
    for a_ in attrs:
        if rnd.random() < 0.3:
            a_['estimate'] = rnd.choice([0, 0.0, 3, 2.5])       # 0 is a value, not "nothing"
        if rnd.random() < 0.2:
            a_['spent'] = rnd.choice([0, 0.0, 1])
        if rnd.random() < 0.25:
            # the other documented fields: planning constraints and recorded dates are field values like any other
            from vf.env import REAL as _R
            f_ = rnd.choice(['min_start', 'start', 'end', 'resource', 'milestone', 'min_start'])
            a_[f_] = {'resource': rnd.choice(['R1', '']), 'milestone': rnd.choice([True, 1])}.get(f_) if f_ in ('resource', 'milestone') \
                else _R(2026, 1, rnd.randint(1, 28), rnd.choice([0, 9]))
        if rnd.random() < 0.1:
            a_[rnd.choice(['cost center', '2nd reviewer'])] = rnd.choice([1, 'me', None])     # e.g. a CSV column title
    wattrs = [({'note': rnd.choice(['n', 3]), 'owner': 'me'} if rnd.random() < 0.5 else {}) for _ in spec['wbs']]
    for wa_ in wattrs:
        if rnd.random() < 0.15:
            # a result stored on the plan under the name of the method that produced it
            wa_[rnd.choice(['critical_path', 'print', 'remove_all'])] = rnd.choice([5, 'cached', (1, 2)])
    for wa_ in wattrs:
        if rnd.random() < 0.15:
            wa_[rnd.choice(['focus', 'on_change'])] = rnd.choice(['#function', '#class', '#tasklist'])
    # a prefix that mostly builds structure: attach, link, move
    u = Universe(spec)
    ops = []
    s = snap(u)
    for _ in range(rnd.randint(6, 30)):
        op = mon_graph.gen_op(rnd, s, u)
        if op[0] in ('new', 'stale.get', 'stale.use', 'bulk_set', 'bulk_parent', 'remove_all', 'wbs.remove_all', 'wbs.remove', 'lremove') and rnd.random() < 0.8:
            continue
        if op[0] in ('new', 'stale.get', 'stale.use'):
            continue
        ops.append(op)
        try:
            execute(u, op)
        except Exception:
            pass
        s = snap(u)
    if n >= 4 and rnd.random() < 0.15:
        # a member linked to a task deep inside a branch that is then removed: the link now leaves the WBS
        labs = [f't{k}' for k in range(n)]
        r_, a_, b_, c_ = labs[:4]
        ops = [['append', ['w', 'w0'], r_], ['append', ['w', 'w0'], a_], ['append', ['t', a_], b_], ['append', ['t', b_], c_],
               rnd.choice([['preds=', r_, [c_], 'list'], ['succs=', r_, [c_], 'list'], ['preds=', r_, [b_, c_], 'list']]),
               rnd.choice([['wbs.remove', 'w0', a_], ['lremove', ['w', 'w0'], a_], ['children=', ['w', 'w0'], [r_], 'list']])] + ops[:6]
    tail = [[rnd.choice(TAIL_OPS), rnd.randrange(50), rnd.randrange(50)] for _ in range(rnd.randint(4, 8))]
    return {'kind': 'clone', 'spec': spec, 'attrs': attrs, 'wattrs': wattrs, 'ops': ops, 'kinds': ['clone', 'subtree'],
            'sel': [[rnd.randrange(50) for _ in range(rnd.randint(1, 3))] for _ in range(3)], 'sel_as_list': rnd.random() < 0.7, 'tail': tail,
            'sel_form': rnd.choice([None, None, 'list', 'tuple', 'generator', 'filter', 'tasklist']), 'empty_selection': rnd.random() < 0.08,
            'sel_repeat': rnd.randint(1, 3) if rnd.random() < 0.2 else 0}


def run_shard(prop, tier, seed, shard, nshards, budget, acc):
    idx = 0
    while budget.more():
        rnd = core.case_rng(seed, shard, idx, 'clone')
        idx += 1
        case = gen_case(rnd, tier)
        judge(case, acc)
        acc.cases += 1
        if idx <= 2:
            acc.sample({'universe': case['spec'], 'prefix': case['ops'][:10], 'selection picks': case['sel'], 'tail': case['tail']})


def run_case(prop, case, acc):
    judge(case, acc)
    acc.cases += 1
