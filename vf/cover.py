"""Reach counters (DESIGN 2.7): which statement lines / functions of pjplan executed while the monitors
were watching.  sys.monitoring LINE events that return DISABLE after the first hit of each location, so
the cost is one callback per distinct line.  Informational: written into the evidence, never decides an
exit code (the deciding "reached-or-inconclusive" counters are the monitors' own)."""
import os
import sys

_hits = {}
_root = None


def start(root):
    global _root
    _root = os.path.realpath(root)
    mon = getattr(sys, 'monitoring', None)
    if mon is None:
        return False
    try:
        mon.use_tool_id(mon.PROFILER_ID, 'vf-cover')
    except ValueError:
        return False

    def on_line(code, line):
        fn = code.co_filename
        if fn.startswith(_root):
            _hits.setdefault(fn, set()).add(line)
        return mon.DISABLE
    mon.register_callback(mon.PROFILER_ID, mon.events.LINE, on_line)
    mon.set_events(mon.PROFILER_ID, mon.events.LINE)
    return True


def stop():
    mon = getattr(sys, 'monitoring', None)
    if mon is not None:
        try:
            mon.set_events(mon.PROFILER_ID, 0)
        except Exception:
            pass


def hits():
    return {os.path.relpath(f, _root): sorted(v) for f, v in _hits.items()}


def executable(path):
    """{qualname: set(lines)} of every code object in the file"""
    with open(path, 'rb') as f:
        src = f.read()
    out = {}

    def walk(co, prefix):
        name = co.co_qualname if hasattr(co, 'co_qualname') else co.co_name
        lines = {ln for _, _, ln in co.co_lines() if ln is not None and ln > 0}
        if not (co.co_flags & 0x1):
            # module level and class bodies run at import time (before the counters start): not interesting for reach
            lines = set()
        out.setdefault(name, set()).update(lines)
        for c in co.co_consts:
            if hasattr(c, 'co_code'):
                walk(c, name)
    walk(compile(src, path, 'exec'), '')
    return out


def summarize(root, merged_hits, files):
    """merged_hits: {relpath: [lines]} ; files: relpaths of interest (relative to the pjplan package dir)"""
    rep = {}
    for rel in files:
        path = os.path.join(root, rel)
        if not os.path.exists(path):
            continue
        ex = executable(path)
        hit = set(merged_hits.get(rel, []))
        total = set().union(*ex.values()) if ex else set()
        not_entered = sorted(q for q, ls in ex.items() if ls and not (ls & hit) and not q.startswith('<'))
        rep[rel] = {'lines_hit': len(total & hit), 'lines_total': len(total), 'functions': len([q for q, l_ in ex.items() if l_]),
                    'functions_not_entered': not_entered[:40]}
    return rep
