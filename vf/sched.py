"""W-SCHED: JSON-able schedule cases, construction through the public API, ProbeResource, helpers.

case = {'kind': 'sched', 'tasks': [...], 'links': [[succ_idx, pred_idx], ...], 'externals': [...],
        'resources': {name: ast | 'missing'}, 'dir': 'fwd'|'bwd', 'date': project start / end,
        'now': clock, 'balance': bool, 'default_estimate': x}
task = {'id', 'name', 'parent': idx|None, 'estimate', 'spent', 'resource', 'milestone', 'min_start', 'start', 'end',
        'attrs': {...}}
"""
import vf.env  # noqa: F401
from vf.env import REAL, td, day
from vf import calast
from pjplan import Task, WBS, IResource, Resource, ForwardScheduler, BackwardScheduler

RESKEY = {None: '<none>'}


def rname(n):
    return '<none>' if n is None else n


class BudgetExceeded(BaseException):
    """more capacity queries than the documented horizons allow (C14 bounded progress)"""


class ProbeResource(Resource):
    """The public extension point: a subclass of pjplan's own Resource (so Resource's code answers, through its public
    `calendar` attribute) that logs every capacity query and every reservation in order (DESIGN 2.3)."""

    def __init__(self, name, ast, shared):
        self.kept = []
        super().__init__(name, calast.build(ast, self.kept))
        self.ast = ast
        self.shared = shared          # dict: 'events' list, 'queries' int, 'budget' int
        self.booked = {}

    def get_available_units(self, date, task=None):
        sh = self.shared
        sh['queries'] += 1
        if sh['queries'] > sh['budget']:
            raise BudgetExceeded(sh['queries'])
        u = super().get_available_units(date, task)
        u = 0 if u is None else u
        caps = sh.get('task_caps')
        if caps and task is not None:
            # a resource may offer a task less than its calendar says (the `task` argument of the extension point)
            f = caps.get(str(task.id), 1)
            u = u * f[0] + f[1] if isinstance(f, list) else u * f      # [share, extra]: extra units only this task gets
        if sh.get('log_queries'):
            sh['events'].append(('q', self.name, date, task.id if task is not None else None, u))
        return u

    def reserve(self, date, task, units):
        self.shared['events'].append(('r', self.name, date, task.id, units))

    def __repr__(self):
        return f'Probe({self.name})'


# ------------------------------------------------------------------------------------------
# effective dependency graph on the spec (D1)
# ------------------------------------------------------------------------------------------
def children_of(tasks):
    ch = {i: [] for i in range(len(tasks))}
    for i, t in enumerate(tasks):
        if t['parent'] is not None:
            ch[t['parent']].append(i)
    return ch


def ancestors_of(tasks, i):
    out = []
    p = tasks[i]['parent']
    while p is not None:
        out.append(p)
        p = tasks[p]['parent']
    return out


def leaves_under(tasks, ch, i):
    if not ch[i]:
        return [i]
    out = []
    for c in ch[i]:
        out += leaves_under(tasks, ch, c)
    return out


def effective_cycle(tasks, links, direction='fwd'):
    """cycle in: task -> own predecessors, task -> predecessors of every ancestor, summary -> children
    (mirrored with successors for the backward scheduler: the same undirected structure, so one test serves both)."""
    n = len(tasks)
    ch = children_of(tasks)
    preds = {i: [] for i in range(n)}
    for s_, p_ in links:
        preds[s_].append(p_)
    deps = {}
    for i in range(n):
        d = list(preds[i]) + list(ch[i])
        for a in ancestors_of(tasks, i):
            d += preds[a]
        deps[i] = d
    color = {}
    for s0 in range(n):
        if color.get(s0):
            continue
        stack = [(s0, iter(deps[s0]))]
        color[s0] = 1
        while stack:
            node, it = stack[-1]
            for d in it:
                c = color.get(d, 0)
                if c == 1:
                    return True
                if c == 0:
                    color[d] = 1
                    stack.append((d, iter(deps[d])))
                    break
            else:
                color[node] = 2
                stack.pop()
    return False


def plain_cycle(tasks, links):
    n = len(tasks)
    preds = {i: [] for i in range(n)}
    for s_, p_ in links:
        preds[s_].append(p_)
    color = {}

    def dfs(i):
        color[i] = 1
        for d in preds[i]:
            c = color.get(d, 0)
            if c == 1 or (c == 0 and dfs(d)):
                return True
        color[i] = 2
        return False
    return any(color.get(i, 0) == 0 and dfs(i) for i in range(n))


# ------------------------------------------------------------------------------------------
# generation
# ------------------------------------------------------------------------------------------
# dyadic values (exact in binary floating point, so no float dust arises and the oracles can be strict);
# the decimal class (0.1, 0.7 ...) is a smaller share of the workload and is judged with the dust guard (D4)
EST = [None, 0, 1, 2, 3.5, 8, 12, 20, 0.25, 0.5, 0.75, 40, 5, 16, 1.5, 0.125, 0.375, 2.0625]
SPENT = [0, 1, 2.5, 8, 50, 0.25, 0.125, 0.0625]
EST_DEC = [None, 0, 1, 3.5, 8, 20, 0.1, 0.2, 0.7, 40, 0.3, 2.4]
SPENT_DEC = [0, 1, 2.5, 8, 50, 0.1]


def gen_case(rnd, direction=None, n_max=12, klass='wellformed', fixed=None, externals=True, bwd_fixed=False):
    direction = direction or rnd.choice(['fwd', 'bwd'])
    base = REAL(2026, 1, 1) + td(days=rnd.randint(0, 6), hours=rnd.choice([0, 0, 0, 10, 23]), minutes=rnd.choice([0, 0, 30]))
    if direction == 'bwd':
        base = base + td(days=30)
    n = rnd.randint(1, n_max)
    decimal = rnd.random() < 0.15
    est_pool, spent_pool = (EST_DEC, SPENT_DEC) if decimal else (EST, SPENT)
    res_names = [None, 'A', 'B', 'C'][:rnd.randint(1, 4)]
    if rnd.random() < 0.1:
        res_names.append('None')       # a resource that is *called* 'None' is not the resource of tasks without one
    one_res = rnd.random() < 0.35   # competition: everybody on one resource
    tasks = []
    for i in range(n):
        t = {'id': i + 1, 'name': f't{i + 1}', 'parent': None, 'estimate': rnd.choice(est_pool), 'spent': None,
             'resource': res_names[-1] if one_res else rnd.choice(res_names), 'milestone': False, 'min_start': None,
             'start': None, 'end': None, 'attrs': {}}
        if rnd.random() < 0.3:
            t['spent'] = rnd.choice(spent_pool)
        if direction == 'fwd' and rnd.random() < 0.15:
            t['min_start'] = base + td(days=rnd.randint(-5, 20), hours=rnd.choice([0, 0, 9, 17]))
        if tasks and rnd.random() < 0.55:
            t['parent'] = rnd.randrange(len(tasks))
        if rnd.random() < 0.15:
            t['attrs']['team'] = rnd.choice(['x', 'y', None, 0, ''])     # None, 0 and '' are values like any other
        if rnd.random() < 0.05:
            t['attrs']['flag'] = rnd.choice([False, None, True])
        tasks.append(t)
    if rnd.random() < 0.15:
        tasks[rnd.randrange(n)]['id'] = 0          # 0 is a legal id (also for a summary task)
    ch = children_of(tasks)
    links = []
    for _ in range(rnd.randint(0, 2 * n)):
        if n < 2:
            break
        a, b = rnd.sample(range(n), 2)
        if a in ancestors_of(tasks, b) or b in ancestors_of(tasks, a) or [a, b] in links:
            continue
        links.append([a, b])
        if plain_cycle(tasks, links):
            links.pop()
            continue
        if klass == 'wellformed' and effective_cycle(tasks, links):
            links.pop()
    for i, t in enumerate(tasks):
        if not ch[i] and rnd.random() < 0.15:
            t['milestone'] = 1 if (i + n) % 3 == 0 else True      # any truthy value flags a milestone (a CSV import leaves 1)
            t['min_start'] = None
    if fixed is None:
        fixed = direction == 'fwd' and rnd.random() < 0.5
    if fixed and direction == 'fwd':
        for i, t in enumerate(tasks):
            if not ch[i] and not t['milestone'] and rnd.random() < 0.15:
                if rnd.random() < 0.6:
                    t['start'] = base + td(days=rnd.randint(-10, 15), hours=rnd.choice([0, 0, 6, 23]))
                else:  # completed in the past (start/end pair)
                    t['start'] = base - td(days=rnd.randint(20, 40))
                    t['end'] = t['start'] + td(days=rnd.randint(0, 9), hours=rnd.choice([0, 12]))
    for i, t in enumerate(tasks):
        if ch[i] and rnd.random() < 0.3:   # junk on summaries (must be replaced by the roll-up)
            t['start'] = base - td(days=3)
            t['estimate'] = 99
            t['spent'] = 1
            if direction == 'fwd' and rnd.random() < 0.5:
                t['end'] = base - td(days=400)
            elif direction == 'bwd' and rnd.random() < 0.6:
                t['end'] = base + td(days=rnd.choice([-400, -3, 5, 40]))
    if direction == 'fwd':
        for i, t in enumerate(tasks):
            if not ch[i] and t['milestone'] and rnd.random() < 0.25:
                t['start'] = base + td(days=rnd.randint(-20, 20))      # stale date on a milestone: must be replaced
                if rnd.random() < 0.5:
                    # a plan reloaded with the dates of an earlier run: start and end (in the past, or the run is refused)
                    t['start'] = base - td(days=rnd.randint(15, 45))
                    t['end'] = t['start']
            elif fixed and not ch[i] and not t['milestone'] and t['start'] is None and rnd.random() < 0.04:
                t['end'] = base - td(days=rnd.randint(20, 40))         # completed, only the end date recorded
    if bwd_fixed and direction == 'bwd' and rnd.random() < 0.4:
        # dates typed on leaves before a backward run (only the checks whose property speaks about every backward
        # schedule ask for this class): a start, an end, or both, earlier or later than what the run would assign
        for i, t in enumerate(tasks):
            if not ch[i] and not t['milestone'] and rnd.random() < 0.25:
                k = rnd.random()
                s_ = base + td(days=rnd.randint(-40, 12), hours=rnd.choice([0, 0, 6, 23]))
                if k < 0.45:
                    t['start'] = s_
                elif k < 0.75:
                    t['end'] = s_
                else:
                    t['start'], t['end'] = s_, s_ + td(days=rnd.randint(0, 9), hours=rnd.choice([0, 12]))
    exts = []
    if externals and direction == 'fwd' and rnd.random() < 0.2 and n:
        for k in range(rnd.randint(1, 2)):
            s_ = base + td(days=rnd.randint(-30, 10))
            # an outside task is a different object whatever its id: a third of them carry the id of a member
            xid = tasks[rnd.randrange(n)]['id'] if rnd.random() < 0.35 else 100 + k
            if any(e['id'] == xid for e in exts):
                xid = 100 + k
            exts.append({'id': xid, 'start': s_, 'end': s_ + td(days=rnd.randint(0, 12), hours=rnd.choice([0, 7])),
                         'succ': sorted(rnd.sample(range(n), rnd.randint(1, min(2, n)))), 'estimate': rnd.choice([None, 3]),
                         'in_other_wbs': rnd.random() < 0.5,
                         # the outside predecessor may be a phase of another project with a child that has no dates yet
                         'kid': ({'id': 300 + k, 'estimate': rnd.choice([2, 8])} if rnd.random() < 0.25 else None),
                         # the outside predecessor may be a former member: it sat two levels down in a branch of this WBS
                         # that was removed after the link was made
                         'via_removed_branch': rnd.random() < 0.25,
                         'milestone': rnd.random() < 0.2})      # a dated milestone of another project
            if exts[-1]['milestone']:
                exts[-1]['end'] = exts[-1]['start']
                exts[-1]['kid'] = None
    if externals and direction == 'fwd' and rnd.random() < 0.12 and n:
        # a task outside the WBS that waits for members (never visited by the forward pass; part of the link structure)
        exts.append({'id': 150, 'start': None, 'end': None, 'succ': [], 'pred_of_ext': sorted(rnd.sample(range(n), rnd.randint(1, min(2, n)))),
                     'estimate': None, 'in_other_wbs': rnd.random() < 0.5})
    if externals and direction == 'bwd' and rnd.random() < 0.2 and n:
        # tasks outside the WBS (another project, already dated) that wait for members: a dependency like any other
        for k in range(rnd.randint(1, 2)):
            s_ = base + td(days=rnd.randint(-25, 3), hours=rnd.choice([0, 0, 9]))
            xid = tasks[rnd.randrange(n)]['id'] if rnd.random() < 0.3 else 100 + k
            if any(e['id'] == xid for e in exts):
                xid = 100 + k
            exts.append({'id': xid, 'start': s_, 'end': s_ + td(days=rnd.randint(0, 6), hours=rnd.choice([0, 7])), 'succ': [],
                         'succ_of': sorted(rnd.sample(range(n), rnd.randint(1, min(2, n)))), 'estimate': rnd.choice([None, None, 3, 8]),
                         'in_other_wbs': rnd.random() < 0.5, 'via_removed_branch': rnd.random() < 0.25})
    resources = {}
    for nm in res_names:
        if rnd.random() < 0.75:
            resources[rname(nm)] = calast.gen_sched_calendar(rnd, base, decimal)
        else:
            resources[rname(nm)] = 'missing'
    if direction == 'fwd':
        now = rnd.choice([REAL(2020, 1, 1), day(base) - td(days=1), day(base), base,
                          base + td(days=rnd.randint(0, 5), hours=rnd.choice([0, 11]))])
    else:
        now = REAL(2020, 1, 1)
    return {'kind': 'sched', 'tasks': tasks, 'links': links, 'externals': exts, 'resources': resources, 'dir': direction,
            'date': base, 'now': now, 'balance': rnd.random() < 0.7, 'default_estimate': rnd.choice([0, 0, 4, 1.5]),
            'class': klass, 'decimal': decimal, 'assemble': rnd.choice(['attached', 'attached', 'detached-first']),
            'wbs_attrs': ({'title': rnd.choice(['Plan A', '', None]), 'owner': 7} if rnd.random() < 0.2 else {}),
            'positional': rnd.random() < 0.3}


# ------------------------------------------------------------------------------------------
# construction through the public API
# ------------------------------------------------------------------------------------------
class Built:
    pass


def _drop_former(w, top):
    """the former branch could not be completed (the outside task carries the id of a member): take the half-built branch out
    again, so that the WBS holds exactly the tasks the case lists"""
    try:
        if top.wbs is not None:
            w.remove(top)
    except RuntimeError:
        pass


def build(case, budget=None, log_queries=False):
    """returns Built with .wbs, .tasks (by index), .externals, .resources (list of probes), .shared"""
    b = Built()
    w = WBS()
    for k_, v_ in (case.get('wbs_attrs') or {}).items():
        setattr(w, k_, v_)       # attributes the user keeps on the plan itself
    objs = []
    for t in case['tasks']:
        kw = dict(t.get('attrs') or {})
        o = Task(t['id'], t['name'], resource=t['resource'], estimate=t['estimate'], spent=t['spent'],
                 milestone=t['milestone'], min_start=t['min_start'], start=t['start'], end=t['end'], **kw)
        objs.append(o)
    if case.get('assemble') == 'detached-first':
        # the tree is put together first and handed to the WBS afterwards, whole branches at a time
        for i, t in enumerate(case['tasks']):
            if t['parent'] is not None:
                objs[t['parent']].children.append(objs[i])
        for i, t in enumerate(case['tasks']):
            if t['parent'] is None:
                w.roots.append(objs[i])
    else:
        for i, t in enumerate(case['tasks']):
            if t['parent'] is None:
                w.roots.append(objs[i])
            else:
                objs[t['parent']].children.append(objs[i])
    for s_, p_ in case['links']:
        objs[s_].predecessors.append(objs[p_])
    exts = []
    b.other_wbs = None
    for e in case.get('externals') or []:
        x = Task(e['id'], f"ext{e['id']}", start=e['start'], end=e['end'], estimate=e.get('estimate'), milestone=bool(e.get('milestone')))
        if e.get('via_removed_branch') and e.get('succ_of') and not e.get('succ'):
            # (backward runs) the outside successor is a former member two levels down in a branch that was removed afterwards
            try:
                top = Task(700 + len(exts) * 3, 'former phase', start=e['start'], end=e['end'])
                mid = Task(701 + len(exts) * 3, 'former step', start=e['start'], end=e['end'])
                w.roots.append(top)
                top.children.append(mid)
                mid.children.append(x)
                for i in e['succ_of']:
                    objs[i].successors.append(x)
                w.remove(top)
                exts.append(x)
                continue
            except RuntimeError:
                _drop_former(w, top)
                x = Task(e['id'], f"ext{e['id']}", start=e['start'], end=e['end'], estimate=e.get('estimate'))
        if e.get('via_removed_branch') and e.get('succ') and not e.get('kid'):
            try:
                top = Task(700 + len(exts) * 3, 'former phase', start=e['start'], end=e['end'])
                mid = Task(701 + len(exts) * 3, 'former step', start=e['start'], end=e['end'])
                w.roots.append(top)
                top.children.append(mid)
                mid.children.append(x)
                for i in e['succ']:
                    objs[i].predecessors.append(x)
                w.remove(top)
                exts.append(x)
                continue
            except RuntimeError:
                _drop_former(w, top)
                x = Task(e['id'], f"ext{e['id']}", start=e['start'], end=e['end'], estimate=e.get('estimate'), milestone=bool(e.get('milestone')))
        if e.get('in_other_wbs'):
            if b.other_wbs is None:
                b.other_wbs = WBS()
            b.other_wbs.roots.append(x)
        if e.get('kid'):
            x.children.append(Task(e['kid']['id'], f"kid{e['kid']['id']}", estimate=e['kid']['estimate']))
        for i in e['succ']:
            objs[i].predecessors.append(x)
        for i in e.get('pred_of_ext') or []:
            x.predecessors.append(objs[i])
        for i in e.get('succ_of') or []:
            objs[i].successors.append(x)
        exts.append(x)
    nleaves = sum(1 for i in range(len(objs)) if not objs[i].children) or 1
    n = len(objs)
    if budget is None:
        budget = nleaves * (3 * 100001 + 64) + 10 * n * n + 1000
    shared = {'events': [], 'queries': 0, 'budget': budget, 'log_queries': log_queries, 'task_caps': case.get('task_caps') or None}
    probes = []
    for nm, ast in case['resources'].items():
        if ast == 'missing':
            continue
        probes.append(ProbeResource(None if nm == '<none>' else nm, ast, shared))
    b.wbs, b.tasks, b.externals, b.probes, b.shared = w, objs, exts, probes, shared
    return b


def scheduler(case, b):
    cls = ForwardScheduler if case['dir'] == 'fwd' else BackwardScheduler
    kw = {'start': case['date']} if case['dir'] == 'fwd' else {'end': case['date']}
    if case.get('positional'):
        # the documented parameter order: (start | end, resources, balance_resources, default_estimate)
        return cls(case['date'], list(b.probes), case['balance'], case['default_estimate'])
    return cls(resources=list(b.probes), balance_resources=case['balance'], default_estimate=case['default_estimate'], **kw)


def capacity(case, resname, d):
    ast = case['resources'].get(rname(resname), 'missing')
    return calast.cap(None if ast == 'missing' else ast, d)


def graph_fields(t):
    from vf.graph import public_fields, CUSTOM_NAMES
    return public_fields(t, CUSTOM_NAMES)


def wbs_snapshot(w, extra=()):
    """public-getter snapshot of a WBS (and extra external tasks) for purity checks"""
    out = []
    for t in list(w.tasks):
        out.append((t.id, t.parent.id if t.parent else None, tuple(c.id for c in t.children),
                    tuple(p.id for p in t.predecessors), tuple(s.id for s in t.successors),
                    graph_fields(t), id(t.wbs)))
    for x in list(extra) + [k for x_ in extra for k in x_.children]:
        # link lists of outside tasks are shared with the clone by design (C10), so only their own fields are compared
        out.append(('ext', x.id, tuple((k, v) for k, v in graph_fields(x) if k not in ('estimate', 'spent'))))
    return out
