"""C20: printed sheets (DESIGN 5/C20).  Colour codes are stripped; a reference renderer of the
*structure* (rows, cells, alignment) is compared with what print()/repr() produce."""
import contextlib
import io
import re

import vf.env  # noqa: F401
from vf.env import REAL, td, set_now
from vf import core, sched
from pjplan import Task, WBS

ANSI = re.compile(r'\x1b\[[0-9;:]*m')
META = {
    'C20': dict(level='exploration', required=['sheets', 'children_hidden_sheets', 'unknown_field_sheets', 'external_link_sheets', 'usage_tables', 'deep_sheets'],
                rule='WBSs from the W-SCHED generator with names None/empty/long/non-ASCII, custom attributes, links that leave the '
                     'WBS; printed through WBS.print / Task.print / task-list print and repr with default fields, permutations, '
                     'unknown and upper-case field names, children shown/hidden, themes with 1-7 level colours. After stripping '
                     'colour codes: line count, depth-first order, 3-space indentation of the name, equal line width, column '
                     'offsets derived from the header and every cell inside its column; link/parent cells incl. (external); '
                     'usage table one line per day. evaluations = sheets judged; non-trivial = sheet with depth >= 1 or links; '
                     'distinct = (target, fields class, children flag, depth, #rows class)',
                assumptions=['single-line names; themes carry both documented keys; colours are not compared']),
}
FIELDS = ['id', 'name', 'resource', 'estimate', 'spent', 'start', 'end', 'predecessors', 'successors', 'parent', 'milestone',
          'min_start', 'note', 'nope', 'NAME', 'Start', 'ID', 'wbs_x', 'children', 'wbs', 'all_children', 'print', 'all_parents']
DEFAULT = ['id', 'name', 'resource', 'estimate', 'spent', 'start', 'end', 'predecessors']


OWNER = {}     # id(task) -> WBS it is a member of, by reachability from the WBS's roots (not by what Task.wbs claims)


def ref_cell(t, f, level):
    if f == 'name':
        return '   ' * level + (t.name if t.name is not None else '')

    def linked(x):
        if x is None:
            return ''
        return f"{x.id}{'(external)' if OWNER.get(id(x)) is not OWNER.get(id(t)) else ''}"
    if f == 'predecessors':
        return '[' + ','.join(linked(p) for p in t.predecessors) + ']'
    if f == 'successors':
        return '[' + ','.join(linked(p) for p in t.successors) + ']'
    if f == 'parent':
        return linked(t.parent)
    if f == 'id':
        return str(t.id)
    if f in ('estimate', 'spent'):
        v = getattr(t, f)
        return '-' if v is None else str(v)
    return ''       # how other values are spelled is not compared (see check_sheet)


def rows_of(given, children):
    out = []

    def walk(t, lvl):
        out.append((t, lvl))
        if children:
            for c in t.children:
                walk(c, lvl + 1)
    for g in given:
        walk(g, 0)
    return out


def check_sheet(text, given, fields, children, acc, case, what):
    lines = [ANSI.sub('', ln) for ln in text.split('\n')]
    if fields is not None:
        fl = list(fields)
    else:
        # which columns the default sheet shows is not fixed by the property: read them off the header line
        fl = [tok.lower() for tok in re.split(r'[\s|]+', lines[0].strip(' |')) if tok]
    exp = rows_of(given, children)
    V = []
    if len(lines) != 1 + len(exp):
        V.append(('line-count' + ('/children-hidden' if not children else ''), f'{len(lines)} lines for {len(exp)} tasks shown (+1 header)'))
    elif len(set(len(ln) for ln in lines)) != 1:
        V.append(('unequal-line-width', f'line widths {sorted(set(len(ln) for ln in lines))}'))
    elif '' in fl:
        pass     # a column without a title cannot be located in the header: line count and equal width are what can be judged
    else:
        hdr = lines[0]
        hdr_u = hdr.upper()
        # column starts = where the header words start (alignment, padding and separators are not part of the property)
        starts = []
        pos = 0
        ok = True
        for f in fl:
            tok = f.upper()
            k = hdr_u.find(tok, pos)
            while k > 0 and hdr_u[k - 1] not in ' |':
                k = hdr_u.find(tok, k + 1)
            if k < 0:
                ok = False
                break
            starts.append(k)
            pos = k + len(tok)
        if not ok:
            V.append(('header', f'header {hdr!r} does not list the fields {fl} in order'))
        else:
            bounds = starts[1:] + [len(hdr)]
            for (t, lvl), ln in zip(exp, lines[1:]):
                for j, f in enumerate(fl):
                    cell = ref_cell(t, f, lvl)
                    got = ln[starts[j]:bounds[j]]
                    if f == 'name':
                        # indentation is measured from where the header word starts
                        ok_cell = got.rstrip(' |') == cell.rstrip()
                    elif f in ('predecessors', 'successors', 'parent'):
                        ok_cell = re.sub(r'\s+', '', got.strip(' |')) == cell.replace(' ', '')
                    elif f == 'id':
                        ok_cell = got.strip(' |') == cell.strip()
                    else:
                        # how other values are spelled (dates, None, numbers) is not part of the property; the cell only
                        # has to stay inside its column, which the equal-width and column-start checks establish
                        ok_cell = True
                    if not ok_cell:
                        kind = 'name-indent' if f == 'name' else 'link-cell' if f in ('predecessors', 'successors', 'parent') else 'cell'
                        w = bounds[j] - starts[j]
                        if len(cell.rstrip()) > w:
                            kind = 'column-narrower-than-cell'
                        V.append((kind, f'task {t.id} column {f}: {got!r}, expected cell {cell!r}'))
                        break
                else:
                    continue
                break
    for k, m in V[:1]:
        acc.violation(f'C20/{what}/{k}', m, case)


def build_world(case):
    sc = case['sched']
    b = sched.build(sc)
    objs = b.tasks
    for i, t in enumerate(sc['tasks']):
        o = objs[i]
        o.name = case['names'][i]
        if case['notes'][i] is not None:
            o.note = case['notes'][i]
    other = WBS()
    twin = case.get('ext_twin')
    # an outside task may carry the id of a member (a vendor's task 2 next to our task 2)
    ext1 = Task(objs[twin % len(objs)].id if twin is not None and objs else 900, 'outside')            # detached external
    ext2 = other // Task(objs[(twin + 1) % len(objs)].id if twin is not None and objs else 901, 'in other wbs')
    b.other = other
    for i, kind in case['ext_links']:
        try:
            if twin is not None:
                # ... and the member of that id is linked to the same task as well
                m_ = objs[(twin if kind == 'p1' else twin + 1) % len(objs)]
                try:
                    (objs[i].successors if kind == 's2' else objs[i].predecessors).append(m_)
                except RuntimeError:
                    pass
            if kind == 'p1':
                objs[i].predecessors.append(ext1)
            elif kind == 'p2':
                objs[i].predecessors.append(ext2)
            else:
                objs[i].successors.append(ext2)
        except RuntimeError:
            pass
    if case.get('remove_branch') is not None:
        # a branch leaves the WBS: links between it and the survivors now leave the WBS
        cands = [o for o in objs if len(o.children) and o.wbs is b.wbs]
        if cands and case.get('printed_before'):
            # the sheet had been printed before the plan was edited: the next sheet shows the plan as it is then
            try:
                capture(lambda: b.wbs.print(['id', 'name', 'predecessors', 'successors', 'parent']))
                repr(b.wbs)
            except Exception:
                pass
        if cands:
            victim = cands[case['remove_branch'] % len(cands)]
            b.wbs.remove(victim)
            b.removed = victim
    for pc in case.get('print_colors') or []:
        objs[pc[0] % len(objs)].print_color = pc[1]
    OWNER.clear()
    for w_ in (b.wbs, other):
        for t_ in w_.tasks:
            OWNER[id(t_)] = w_
    return b, objs


def capture(fn):
    buf = io.StringIO()
    with contextlib.redirect_stdout(buf):
        fn()
    out = buf.getvalue()
    return out[:-1] if out.endswith('\n') else out


def judge(case, acc):
    b, objs = build_world(case)
    w = b.wbs
    tasks = list(w.tasks)
    if not tasks:
        if getattr(b, 'removed', None) is None or case['target'] != 'task':
            acc.count('empty_wbs_skipped')
            return
        tasks = [b.removed] + list(b.removed.all_children)
    fields = case['fields']
    children = case['children']
    theme = case['theme']
    target = case['target']
    if target == 'task' and getattr(b, 'removed', None) is not None and case['pick'][0] % 2 == 0:
        t = b.removed
        given = [t]
        fn = lambda: t.print(fields, children, theme)  # noqa: E731
        rp = lambda: repr(t)  # noqa: E731
        tasks = [t]
    elif target == 'empty':
        # a sheet that shows no task is still a sheet: the header line, nothing else
        kind_ = case['pick'][0] % 4
        leaf = next((x for x in tasks if not len(x.children)), tasks[0])
        free = next((x for x in tasks if not len(x.predecessors)), None)
        given = []
        if kind_ == 0:
            ew = WBS()
            fn = lambda: ew.print(fields, children, theme)  # noqa: E731
            rp = lambda: repr(ew)  # noqa: E731
        elif kind_ == 1 or (kind_ == 2 and free is None):
            fn = lambda: leaf.children.print(fields, children, theme)  # noqa: E731
            rp = lambda: repr(leaf.children)  # noqa: E731
        elif kind_ == 2:
            fn = lambda: free.predecessors.print(fields, children, theme)  # noqa: E731
            rp = lambda: repr(free.predecessors)  # noqa: E731
        else:
            nolist = w.tasks(lambda x: False)
            fn = lambda: nolist.print(fields, children, theme)  # noqa: E731
            rp = lambda: repr(nolist)  # noqa: E731
        acc.count('empty_sheets')
    elif target == 'wbs':
        given = list(w.roots)
        fn = lambda: w.print(fields, children, theme)  # noqa: E731
        rp = lambda: repr(w)  # noqa: E731
    elif target == 'task':
        t = tasks[case['pick'][0] % len(tasks)]
        given = [t]
        fn = lambda: t.print(fields, children, theme)  # noqa: E731
        rp = lambda: repr(t)  # noqa: E731
    else:
        ids = {tasks[k % len(tasks)].id for k in case['pick']}
        lst = w.tasks(lambda x: x.id in ids)
        given = [x for x in tasks if x.id in ids]
        fn = lambda: lst.print(fields, children, theme)  # noqa: E731
        rp = lambda: repr(lst)  # noqa: E731
    depth = max((lvl for _, lvl in rows_of(given, children)), default=0)
    haslinks = any(len(t.predecessors) for t, _ in rows_of(given, children))
    unknown = fields is not None and any(f in ('nope', 'wbs_x', 'children', 'wbs', 'all_children', 'print', 'all_parents') for f in fields)
    acc.ev()
    acc.count('sheets')
    if not children:
        acc.count('children_hidden_sheets')
    if unknown:
        acc.count('unknown_field_sheets')
    if case['ext_links'] and (fields is None or any(f in ('predecessors', 'successors') for f in fields)):
        acc.count('external_link_sheets')
    if depth >= 2:
        acc.count('deep_sheets')
    if depth >= 1 or haslinks:
        fclass = 'default' if fields is None else ('unknown' if unknown else 'custom') + str(min(len(fields), 5))
        acc.sig(target, fclass, children, min(depth, 4), min(len(rows_of(given, children)), 8), theme is not None)
    try:
        text = capture(fn)
    except Exception as e:
        acc.violation(f'C20/{target}/raised-{type(e).__name__}', f'print raised {type(e).__name__}: {str(e)[:100]}', case)
        return
    check_sheet(text, given, fields, children, acc, case, target)
    # repr: default fields, children shown
    try:
        rtext = rp()
    except Exception as e:
        acc.violation(f'C20/{target}-repr/raised-{type(e).__name__}', f'repr raised {type(e).__name__}: {str(e)[:100]}', case)
        return
    acc.ev()
    check_sheet(rtext, given, None, True, acc, case, target + '-repr')
    # usage table
    if case.get('usage'):
        set_now(REAL(2020, 1, 1))
        sc = case['sched']
        b2 = sched.build(sc)
        try:
            res = sched.scheduler(sc, b2).calc(b2.wbs)
        except RuntimeError:
            return
        rows = res.resource_usage.rows()
        text = ANSI.sub('', repr(res.resource_usage))
        acc.ev()
        acc.count('usage_tables')

        def as_day(txt):
            for f in ('%y-%m-%d', '%Y-%m-%d', '%d.%m.%Y', '%d.%m.%y', '%Y/%m/%d'):
                try:
                    return REAL.strptime(txt, f)
                except ValueError:
                    pass
            return None
        lines = text.split('\n')
        data = []
        for ln in lines:
            cells = [c_.strip() for c_ in ln.strip().strip('|').split('|')] if '|' in ln else ln.split()
            d_ = as_day(cells[0]) if cells else None
            if d_ is not None:
                data.append((d_, cells, ln))
        if not rows:
            if data:
                acc.violation('C20/usage-table/empty', f'no reservations but the table has {len(data)} day lines', case)
            return
        d0, d1 = min(r.date for r in rows), max(r.date for r in rows)
        ndays = (d1 - d0).days + 1
        if len(data) != ndays:
            acc.violation('C20/usage-table/line-count', f'{len(data)} day lines for {ndays} days between {d0.date()} and {d1.date()}', case)
        elif len(set(len(ln) for ln in lines)) != 1:
            acc.violation('C20/usage-table/unequal-line-width', f'widths {sorted(set(map(len, lines)))}', case)
        else:
            for k, (d_, cells, ln) in enumerate(data):
                d = d0 + td(days=k)
                if REAL(d_.year, d_.month, d_.day) != d:
                    acc.violation('C20/usage-table/day-sequence', f'day line {k + 1} is {cells[0]!r}, expected {d.date()}', case)
                    break


def gen_case(rnd):
    sc = sched.gen_case(rnd, 'fwd', n_max=9, externals=False)
    sc['now'] = REAL(2020, 1, 1)
    n = len(sc['tasks'])
    names = [rnd.choice([None, '', 'x' * rnd.randint(1, 30), 'é日✓ n', 'task', 'a b  c']) for _ in range(n)]
    notes = [rnd.choice([None, None, 'n' * rnd.randint(0, 25), 7, 2.5]) for _ in range(n)]
    ext = []
    if rnd.random() < 0.4:
        for _ in range(rnd.randint(1, 2)):
            ext.append([rnd.randrange(n), rnd.choice(['p1', 'p2', 's2'])])
    r = rnd.random()
    if r < 0.3:
        fields = None
    elif r < 0.5:
        fields = rnd.sample(DEFAULT, len(DEFAULT))
    else:
        fields = rnd.sample(FIELDS, rnd.randint(1, 8))
        if rnd.random() < 0.08:
            fields.insert(rnd.randrange(len(fields) + 1), '')      # "any choice of fields": the empty name is an unknown field too
        if rnd.random() < 0.06:
            fields.insert(rnd.randrange(len(fields) + 1), rnd.choice(fields))      # the same column asked for twice
    theme = rnd.choice([None, {'header_color': '91m', 'level_colors': ['94m'] * rnd.randint(1, 7)},
                        {'header_color': None, 'level_colors': [rnd.choice([None, '96m']) for _ in range(rnd.randint(1, 4))]}])
    return {'kind': 'sheet', 'sched': sc, 'names': names, 'notes': notes, 'ext_links': ext, 'fields': fields,
            'children': rnd.choice([True, True, True, False, False, 1, 0]), 'theme': theme, 'printed_before': rnd.random() < 0.5, 'target': rnd.choice(['wbs', 'task', 'list'] * 5 + ['empty']),
            'pick': [rnd.randrange(50) for _ in range(rnd.randint(0, 5))] or [0], 'usage': rnd.random() < 0.4,
            'remove_branch': rnd.randrange(20) if rnd.random() < 0.25 else None, 'ext_twin': rnd.randrange(20) if ext and rnd.random() < 0.4 else None,
            'print_colors': [[rnd.randrange(20), rnd.choice(['', '93m', None])] for _ in range(rnd.randint(0, 2))] if rnd.random() < 0.3 else []}


def run_shard(prop, tier, seed, shard, nshards, budget, acc):
    idx = 0
    while budget.more():
        rnd = core.case_rng(seed, shard, idx, 'sheet')
        idx += 1
        case = gen_case(rnd)
        judge(case, acc)
        acc.cases += 1
        if idx <= 2:
            acc.sample({k: v for k, v in case.items() if k != 'sched'})


def run_case(prop, case, acc):
    judge(case, acc)
    acc.cases += 1
