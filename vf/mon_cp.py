"""C12: WBS.critical_path() == exact zero-float leaf set (DESIGN 5/C12).

Reference: longest-path computation in fractions.Fraction over the effective network (a leaf waits
for every member leaf under every predecessor of itself and of its ancestors), durations
max(estimate - spent, 0) taken from the *decimal text* of the generated numbers (D4).
"""
import collections
from fractions import Fraction as Fr

import vf.env  # noqa: F401
from vf import core, sched
from vf.env import REAL, td
from pjplan import Task, WBS

META = {
    'C12': dict(level='exploration', required=['calls', 'with_links', 'fractional_cases', 'summary_link_cases', 'parallel_equal_length_cases'],
                rule='generated WBSs (<=10 tasks, forests, links on leaves and summaries, estimates/spent from 2-decimal fractions '
                     'incl. parallel branches of equal decimal length such as 0.1+0.2 vs 0.3, zero-length tasks, external '
                     'predecessors in a separate class); critical_path() compared with the exact longest-path reference, result '
                     'members checked for identity with WBS leaves, whole-WBS snapshot equal around the call. evaluations = calls '
                     'judged; non-trivial = >=2 leaves and >=1 link; distinct = (#leaves, #links, summary links, fractional, '
                     '#critical, #chains); plus an exhaustive small-scope layer: every forest on <=4 tasks x every set of <=3 links x every '
                     'assignment of durations {0, 0.1, 0.2, 0.3} to the leaves (every 4th in the quick tier; <=4 links and all in the thorough tier)',
                assumptions=['effective dependency graph acyclic (D1)', 'numbers with <=2 decimals so that legitimate float error '
                             '(<=1e-12) is far from the smallest real difference (0.01)', 'bounded: <=10 tasks']),
}

DEC = ['0', '1', '2', '3', '0.1', '0.2', '0.3', '0.7', '1.1', '2.35', '0.05', '8', '0.15', '0.25', '1.3', '0.9', '0.6']


def num(txt):
    if txt is None:
        return None
    return float(txt) if '.' in txt else int(txt)


def gen_case(rnd, tier='quick'):
    n = rnd.randint(1, 10 if tier == 'thorough' else 9)
    fractional = rnd.random() < 0.7
    dated = rnd.random() < 0.3
    pool = DEC if fractional else ['0', '1', '2', '3', '8', '5']
    tasks = []
    for k in range(n):
        t = {'id': k + 1, 'parent': None, 'estimate': rnd.choice(pool + [None]), 'spent': rnd.choice([None, None, '0', '0.1', '1', '5'] if fractional else [None, None, '0', '1', '5'])}
        if dated:
            # dates on the tasks (as after a scheduling run, or typed by hand): the critical path does not depend on them
            s_ = REAL(2026, 1, 5) + td(days=rnd.randint(0, 20))
            t['start'], t['end'] = s_, s_ + td(days=rnd.randint(0, 9), hours=rnd.choice([0, 6]))
        if tasks and rnd.random() < 0.4:
            t['parent'] = rnd.randrange(len(tasks))
        if rnd.random() < 0.08:
            t['milestone'] = True      # the flag does not shorten a leaf: "every leaf lasts max(estimate - spent, 0)"
        tasks.append(t)
    links = []
    summary_links = rnd.random() < 0.5
    ch = {i: [] for i in range(n)}
    for i, t in enumerate(tasks):
        if t['parent'] is not None:
            ch[t['parent']].append(i)
            tasks[t['parent']].pop('milestone', None)      # milestones are leaves (D2)
    shadow = [{'parent': t['parent']} for t in tasks]
    for _ in range(rnd.randint(0, 12)):
        if n < 2:
            break
        a, b = rnd.sample(range(n), 2)
        if a in sched.ancestors_of(shadow, b) or b in sched.ancestors_of(shadow, a) or [a, b] in links:
            continue
        if not summary_links and (ch[a] or ch[b]):
            continue
        links.append([a, b])
        if sched.plain_cycle(shadow, links) or sched.effective_cycle(shadow, links):
            links.pop()
    # make parallel branches of equal decimal length likely: a->b chain 0.1+0.2 next to c 0.3
    if fractional and n >= 3 and rnd.random() < 0.35:
        leaves = [i for i in range(n) if not ch[i]]
        if len(leaves) >= 3:
            a, b, c_ = rnd.sample(leaves, 3)
            if [b, a] not in links:
                links.append([b, a])
                if sched.plain_cycle(shadow, links) or sched.effective_cycle(shadow, links):
                    links.pop()
                else:
                    pick = rnd.choice([('0.1', '0.2', '0.3'), ('0.7', '0.2', '0.9'), ('1.1', '0.2', '1.3'), ('0.05', '0.1', '0.15'), ('0.3', '0.3', '0.6')])
                    tasks[a]['estimate'], tasks[b]['estimate'], tasks[c_]['estimate'] = pick
                    tasks[a]['spent'] = tasks[b]['spent'] = tasks[c_]['spent'] = None
    ext = []
    if rnd.random() < 0.15:
        # a predecessor outside the WBS; half of the time its id equals the id of a member, half of the time it lives in another WBS
        ext = [{'id': rnd.choice([100, rnd.randint(1, n)]), 'estimate': rnd.choice(['5', '50', None]), 'succ': [rnd.randrange(n)],
                'in_other_wbs': rnd.random() < 0.5}]
        if rnd.random() < 0.3:
            ext.append({'id': rnd.randint(1, n), 'estimate': '30', 'succ': [rnd.randrange(n)], 'in_other_wbs': True, 'ext_pred': True})
    if rnd.random() < 0.15:
        # tasks outside the WBS that wait for members (another project, a detached task, a task removed from this WBS)
        for _ in range(rnd.randint(1, 2)):
            ext.append({'id': rnd.choice([200, rnd.randint(1, n)]), 'estimate': rnd.choice(['5', None]), 'succ': [],
                        'succ_of': sorted(rnd.sample(range(n), rnd.randint(1, min(2, n)))), 'in_other_wbs': rnd.random() < 0.5})
    then = None
    if rnd.random() < 0.3 and n >= 2:
        # the plan is edited and asked again: the second answer belongs to the plan as it is then
        k_ = rnd.random()
        if k_ < 0.4 and links:
            then = ['unlink'] + rnd.choice(links)
        elif k_ < 0.75:
            for _ in range(6):
                a, b = rnd.sample(range(n), 2)
                if a in sched.ancestors_of(shadow, b) or b in sched.ancestors_of(shadow, a) or [a, b] in links:
                    continue
                if sched.plain_cycle(shadow, links + [[a, b]]) or sched.effective_cycle(shadow, links + [[a, b]]):
                    continue
                then = ['link', a, b]
                break
        else:
            then = [rnd.choice(['estimate', 'spent']), rnd.randrange(n), rnd.choice(['0', '9', '0.3', '2'])]
    return {'kind': 'cp', 'tasks': tasks, 'links': links, 'externals': ext, 'ext_first': rnd.random() < 0.5, 'then': then}


def oracle(case):
    tasks = case['tasks']
    n = len(tasks)
    ch = sched.children_of(tasks)
    leaves = [i for i in range(n) if not ch[i]]
    if not leaves:
        return set(), 0, 0
    dur = {i: max(Fr(tasks[i]['estimate'] or '0') - Fr(tasks[i]['spent'] or '0'), 0) for i in leaves}
    preds = {i: [] for i in range(n)}
    for s_, p_ in case['links']:
        preds[s_].append(p_)
    ep = {}
    for i in leaves:
        ps = set()
        for x in [i] + sched.ancestors_of(tasks, i):
            for p in preds[x]:
                ps.update(sched.leaves_under(tasks, ch, p))
        ep[i] = sorted(ps)
    es = collections.defaultdict(list)
    for i in leaves:
        for p in ep[i]:
            es[p].append(i)
    ef, tail = {}, {}

    def EF(i):
        if i not in ef:
            ef[i] = max([EF(p) for p in ep[i]] + [Fr(0)]) + dur[i]
        return ef[i]

    def TAIL(i):
        if i not in tail:
            tail[i] = max([dur[s_] + TAIL(s_) for s_ in es[i]] + [Fr(0)])
        return tail[i]
    total = max(EF(i) for i in leaves)
    crit = {i for i in leaves if EF(i) + TAIL(i) == total}
    # number of distinct source leaves on a longest chain (>=2 means parallel branches of equal length)
    chains = sum(1 for i in crit if not any(p in crit for p in ep[i]))
    return crit, total, chains


def build(case):
    w = WBS()
    objs = []
    for t in case['tasks']:
        objs.append(Task(t['id'], f"t{t['id']}", estimate=num(t['estimate']), spent=num(t['spent']), start=t.get('start'), end=t.get('end'),
                         milestone=bool(t.get('milestone'))))
    for i, t in enumerate(case['tasks']):
        (w.roots if t['parent'] is None else objs[t['parent']].children).append(objs[i])
    if not case.get('ext_first'):
        for s_, p_ in case['links']:
            objs[s_].predecessors.append(objs[p_])
    exts = []
    other = None
    for e in case.get('externals') or []:
        x = Task(e['id'], 'ext', estimate=num(e['estimate']))
        if e.get('in_other_wbs'):
            if other is None:
                other = WBS()
            try:
                other.roots.append(x)
            except RuntimeError:
                pass
        if e.get('ext_pred') and exts:
            x.successors.append(exts[0])       # a chain of outside tasks in front of the member
        for i in e['succ']:
            objs[i].predecessors.append(x)
        for i in e.get('succ_of') or []:
            objs[i].successors.append(x)
        exts.append(x)
    if case.get('ext_first'):
        # the outside predecessors were declared first: they stand in front of the members in the predecessor lists
        for s_, p_ in case['links']:
            objs[s_].predecessors.append(objs[p_])
    return w, objs, exts


def judge(prop, case, acc):
    try:
        w, objs, exts = build(case)
    except Exception as e:
        acc.count('unbuildable:' + type(e).__name__)
        return
    _judge_call(case, w, objs, exts, acc, '')
    th = case.get('then')
    if th:
        import copy
        case2 = copy.deepcopy(case)
        case2['then'] = None
        try:
            if th[0] == 'unlink':
                objs[th[1]].predecessors.remove(objs[th[2]])
                case2['links'].remove([th[1], th[2]])
            elif th[0] == 'link':
                objs[th[1]].predecessors.append(objs[th[2]])
                case2['links'].append([th[1], th[2]])
            else:
                setattr(objs[th[1]], th[0], num(th[2]))
                case2['tasks'][th[1]][th[0]] = th[2]
        except Exception as e:
            acc.count('followup_edit_refused:' + type(e).__name__)
            return
        acc.count('calls_after_an_edit')
        _judge_call(case2, w, objs, exts, acc, '/second-call-after-' + th[0], report_case=case)


def _judge_call(case, w, objs, exts, acc, suffix, report_case=None):
    report_case = report_case or case
    crit, total, chains = oracle(case)
    tasks = case['tasks']
    ch = sched.children_of(tasks)
    leaves = [i for i in range(len(tasks)) if not ch[i]]
    before = sched.wbs_snapshot(w, exts)
    try:
        got = w.critical_path()
        got = list(got)
        outcome = 'ok'
    except RecursionError as e:
        got, outcome, err = None, 'RecursionError', e
    except Exception as e:
        got, outcome, err = None, type(e).__name__, e
    after = sched.wbs_snapshot(w, exts)
    acc.ev()
    acc.count('calls')
    has_summary_link = any(ch[a] or ch[b] for a, b in case['links'])
    fractional = any('.' in (t['estimate'] or '') or '.' in (t['spent'] or '') for t in tasks)
    if case['links']:
        acc.count('with_links')
    if fractional:
        acc.count('fractional_cases')
    if has_summary_link:
        acc.count('summary_link_cases')
    if chains >= 2 and total > 0:
        acc.count('parallel_equal_length_cases')
    if case.get('externals'):
        acc.count('external_predecessor_cases')
    if len(leaves) >= 2 and case['links']:
        acc.sig(len(leaves), len(case['links']), has_summary_link, fractional, len(crit), min(chains, 3), bool(case.get('externals')))
    V = []
    ext_tag = '/external-predecessor' if case.get('externals') else ''
    if before != after:
        V.append((f'C12/wbs-modified', 'critical_path() changed the WBS'))
    if outcome != 'ok':
        mech = ''
        if outcome == 'KeyError' and has_summary_link:
            mech = '/summary-predecessor'
        V.append((f'C12/raised-{outcome}{mech}{ext_tag}', f'critical_path() raised {outcome}: {str(err)[:100]}'))
    else:
        member = {id(o): i for i, o in enumerate(objs)}
        got_idx = set()
        for g in got:
            if id(g) not in member:
                V.append((f'C12/non-member-in-result{ext_tag}', f'result contains task {getattr(g, "id", g)!r} which is not a task of the WBS'))
            elif ch[member[id(g)]]:
                V.append(('C12/summary-in-result', f'result contains summary task {g.id}'))
            else:
                got_idx.add(member[id(g)])
        want_ids = sorted(tasks[i]['id'] for i in crit)
        got_ids = sorted(tasks[i]['id'] for i in got_idx)
        if leaves and not got_idx:
            V.append((f'C12/empty-result{ext_tag}', f'empty result for a WBS with {len(leaves)} leaves; zero-float leaves are {want_ids}'))
        elif got_idx != crit:
            kind = 'missing' if got_idx < crit else 'extra' if got_idx > crit else 'differs'
            V.append((f'C12/result-{kind}' + ('/summary-link' if has_summary_link else '') + ext_tag,
                      f'critical_path() = {got_ids}, exact zero-float leaves = {want_ids} (project length {total})'))
    for key, msg in V:
        acc.violation(key + suffix, msg, report_case)


def _exhaustive_layer(tier, shard, nshards, acc, budget=None):
    """small-scope layer: every forest on <=4 tasks x every set of <=3 (quick) / <=4 (thorough) links x every assignment of the
    durations {0, 0.1, 0.2, 0.3} to the leaves (summaries get a junk estimate) -- all ties between parallel chains whose
    decimal lengths are equal but whose float sums differ (0.1+0.2 vs 0.3) are in there"""
    import itertools
    from vf import exh_sched
    vals = ['0', '0.1', '0.2', '0.3']
    k = 0
    for n, parents, links in exh_sched.cases('fwd', 4, 4 if tier == 'thorough' else 3):
        ch = {i: [c for c in range(n) if parents[c] == i] for i in range(n)}
        leaves = [i for i in range(n) if not ch[i]]
        if not links and n > 1 and tier != 'thorough':
            continue
        if sched.effective_cycle([{'parent': p_} for p_ in parents], [list(x) for x in links]):
            continue      # C12 quantifies over acyclic WBSs
        if budget is not None and budget.overdue():
            acc.count('exhaustive_layer_truncated')
            # on a loaded machine the enumeration may not fit; the random workload (with its floor of cases) still decides,
            # and the evidence says that the enumeration was cut short
            acc.notes.append('exhaustive small-scope layer cut short (three times the shard budget used up)')
            return
        for combo in itertools.product(vals, repeat=len(leaves)):
            k += 1
            if k % nshards != shard:
                continue
            if tier != 'thorough' and k % 4:
                continue
            tasks = [{'id': i + 1, 'parent': parents[i], 'estimate': '7', 'spent': None} for i in range(n)]
            for i, v in zip(leaves, combo):
                tasks[i]['estimate'] = v
            judge('C12', {'kind': 'cp', 'tasks': tasks, 'links': [list(x) for x in links], 'externals': []}, acc)
            acc.cases += 1
            acc.count('exhaustive_small_scope_cases')


def run_shard(prop, tier, seed, shard, nshards, budget, acc):
    idx = 0
    _exhaustive_layer(tier, shard, nshards, acc, budget)
    while budget.more():
        rnd = core.case_rng(seed, shard, idx, 'cp')
        idx += 1
        case = gen_case(rnd, tier)
        judge(prop, case, acc)
        acc.cases += 1
        if idx <= 2:
            acc.sample(case)


def run_case(prop, case, acc):
    judge(prop, case, acc)
    acc.cases += 1
