#!/bin/bash
# Smoke test of the machinery itself (run before committing a change to vf/): every module parses, every check runs a tiny
# workload on the unchanged tree without harness errors (exit codes 0; inconclusive because of the tiny budget is tolerated
# only for the reached-or-inconclusive counters), every findings witness still classifies.
cd "$(dirname "$0")/.."
bad=0
for f in vf/*.py tools/*.py; do /venv/bin/python -c "import ast,sys;ast.parse(open('$f').read())" || { echo "SYNTAX $f"; bad=1; }; done
for i in $(seq -w 1 20); do
  out=$(./check C$i --no-evidence --cases 60 --seconds 5 2>&1)
  rc=$?
  if echo "$out" | grep -q "harness error\|cannot import\|shard died"; then echo "HARNESS C$i"; echo "$out" | grep -m2 "harness error\|cannot import\|shard died"; bad=1; fi
  if [ $rc -eq 1 ]; then echo "ALARM C$i"; bad=1; fi
done
echo "selfcheck: $([ $bad -eq 0 ] && echo ok || echo PROBLEMS)"
exit $bad
