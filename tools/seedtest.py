#!/usr/bin/env python3
"""Self-test of the monitors against seeded defects (DESIGN 2.10).

usage: tools/seedtest.py [--tier quick|thorough] [--all-props] [--seeds 0,1] <seeded-dir-or-patch> [<prop> ...]

For each seeded defect (a directory with patch.diff + meta.json, or a bare patch file with the properties given on
the command line): copy /repo's working tree to a scratch directory outside /repo and /verif, apply the patch there,
run the repository's own tests (must still be 84 passed), run the demonstration if there is one (must fail), run
`./check <prop>` with VERIF_REPO_SRC pointing at the scratch copy and report whether the check exits 1.
The scratch copy is removed afterwards.  /repo itself is never modified.
"""
import argparse
import json
import os
import re
import shutil
import subprocess
import sys
import tempfile

HERE = os.path.dirname(os.path.dirname(os.path.abspath(__file__)))


def sh(cmd, **kw):
    return subprocess.run(cmd, shell=isinstance(cmd, str), capture_output=True, text=True, **kw)


def run_one(patch, props, tier, seeds, demo=None, quiet=False):
    scratch = tempfile.mkdtemp(prefix='vfseed_', dir='/tmp')
    res = {'patch': patch, 'props': {}}
    try:
        sh(f'rsync -a --exclude .git --exclude __pycache__ --exclude _seed /repo/ {scratch}/')
        r = sh(f'cd {scratch} && patch -p1 --no-backup-if-mismatch < {patch}')
        if r.returncode != 0:
            res['error'] = 'patch does not apply: ' + (r.stdout + r.stderr)[-300:]
            return res
        t = sh(f'cd {scratch} && PYTHONPATH={scratch}/src /venv/bin/python -m pytest -q -p no:cacheprovider tests 2>&1 | tail -1')
        res['tests'] = t.stdout.strip()
        m = re.search(r'(\d+) passed', res['tests'])
        res['tests_ok'] = bool(m and int(m.group(1)) == 84)
        if demo:
            d = sh(f'cd {scratch} && PYTHONPATH={scratch}/src /venv/bin/python {demo}', timeout=300)
            res['demo_exit_with_patch'] = d.returncode
            d0 = sh(f'cd /repo && PYTHONPATH=/repo/src /venv/bin/python {demo}', timeout=300)
            res['demo_exit_without_patch'] = d0.returncode
        for prop in props:
            outs = []
            for seed in seeds:
                env = dict(os.environ, VERIF_REPO_SRC=f'{scratch}/src', VERIF_SEED=str(seed))
                c = subprocess.run([os.path.join(HERE, 'check'), prop, '--tier', tier, '--no-evidence'], cwd=HERE, env=env,
                                   capture_output=True, text=True)
                keys = sorted(set(re.findall(r'violation: key=(\S+)', c.stdout)))
                outs.append({'seed': seed, 'exit': c.returncode, 'keys': keys[:6], 'tail': c.stdout.strip().split('\n')[-1][:200]})
            res['props'][prop] = outs
    finally:
        shutil.rmtree(scratch, ignore_errors=True)
        # replays written while pointing at a scratch copy are not evidence about /repo
    return res


def main():
    ap = argparse.ArgumentParser()
    ap.add_argument('target')
    ap.add_argument('props', nargs='*')
    ap.add_argument('--tier', default='quick')
    ap.add_argument('--seeds', default='0')
    ap.add_argument('--all-props', action='store_true')
    a = ap.parse_args()
    seeds = [int(x) for x in a.seeds.split(',')]
    if os.path.isdir(a.target):
        meta = json.load(open(os.path.join(a.target, 'meta.json')))
        patch = os.path.join(a.target, 'patch.diff')
        props = a.props or [meta['property']]
        demo = os.path.join(a.target, meta['demo']) if meta.get('demo') else None
    else:
        patch, props, demo = os.path.abspath(a.target), a.props, None
    if a.all_props:
        props = ['C%02d' % i for i in range(1, 21)]
    r = run_one(os.path.abspath(patch), props, a.tier, seeds, demo)
    print(json.dumps(r, indent=1))
    caught = all(any(o['exit'] == 1 for o in outs) for outs in r['props'].values()) if r['props'] else False
    return 0 if caught else 1


if __name__ == '__main__':
    sys.exit(main())
