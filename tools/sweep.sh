#!/bin/bash
# seed sweep on the unchanged tree: tools/sweep.sh <tier> "<seeds>" [props...]   (prints one line per run + any alarm lines)
tier=$1; seeds=$2; shift 2
props=${@:-C01 C02 C03 C04 C05 C06 C07 C08 C09 C10 C11 C12 C13 C14 C15 C16 C17 C18 C19 C20}
cd "$(dirname "$0")/.."
for s in $seeds; do for p in $props; do
  out=$(VERIF_SEED=$s ./check $p --tier $tier --no-evidence 2>&1); rc=$?
  echo "seed=$s $p rc=$rc $(echo "$out" | tail -1 | cut -c1-160)"
  echo "$out" | grep -E "^(VIOLATION|violation:|INCONCLUSIVE)" | cut -c1-400
done; done
