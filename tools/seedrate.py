#!/usr/bin/env python3
"""Detection rate of the own quick check for every seeded defect over several seeds (does not touch meta.json).
usage: tools/seedrate.py [-j 4] [--seeds 2,3,4,5] [ids...]   prints one line per defect, rates below 100 % marked."""
import json
import os
import sys
from concurrent.futures import ThreadPoolExecutor

HERE = os.path.dirname(os.path.dirname(os.path.abspath(__file__)))
sys.path.insert(0, os.path.join(HERE, 'tools'))
import seedtest  # noqa: E402


def main():
    args = sys.argv[1:]
    j, seeds = 4, [2, 3, 4, 5]
    while args and args[0].startswith('-'):
        if args[0] == '-j':
            j = int(args[1])
        elif args[0] == '--seeds':
            seeds = [int(x) for x in args[1].split(',')]
        args = args[2:]
    ids = args or sorted(os.listdir(os.path.join(HERE, 'seeded')))

    def one(sid):
        d = os.path.join(HERE, 'seeded', sid)
        meta = json.load(open(os.path.join(d, 'meta.json')))
        if meta.get('expected_miss_reason'):
            return sid, meta['property'], None
        r = seedtest.run_one(os.path.join(d, 'patch.diff'), [meta['property']], 'quick', seeds, None)
        outs = r['props'].get(meta['property'], [])
        return sid, meta['property'], [o['exit'] for o in outs]
    weak = 0
    with ThreadPoolExecutor(j) as ex:
        for sid, prop, exits in ex.map(one, ids):
            if exits is None:
                print(f'{sid:8s} {prop} out-of-domain', flush=True)
                continue
            hit = sum(1 for e in exits if e == 1)
            flag = '' if hit == len(exits) else '   <-- WEAK'
            if flag:
                weak += 1
            print(f'{sid:8s} {prop} {hit}/{len(exits)} {exits}{flag}', flush=True)
    print('weak:', weak)


if __name__ == '__main__':
    main()
