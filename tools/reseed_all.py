#!/usr/bin/env python3
"""Re-runs every seeded defect under /verif/seeded against the current checks (quick tier, its own property, seeds 0 and 1)
and rewrites meta.json.checks_run / caught_by.  Prints a table; exit 1 if a seeded defect is missed by its own check.
usage: tools/reseed_all.py [-j 4] [ids...]"""
import json
import os
import sys
from concurrent.futures import ThreadPoolExecutor

HERE = os.path.dirname(os.path.dirname(os.path.abspath(__file__)))
sys.path.insert(0, os.path.join(HERE, 'tools'))
import seedtest  # noqa: E402


def one(sid):
    d = os.path.join(HERE, 'seeded', sid)
    meta = json.load(open(os.path.join(d, 'meta.json')))
    prop = meta['property']
    demo = os.path.join(d, meta['demo']) if meta.get('demo') else None
    r = seedtest.run_one(os.path.join(d, 'patch.diff'), [prop], 'quick', [0, 1], demo)
    outs = r['props'].get(prop, [])
    caught = any(o['exit'] == 1 for o in outs)
    meta['confirmed'] = {'repo_tests_with_patch': r.get('tests'), 'demo_exit_with_patch': r.get('demo_exit_with_patch'),
                         'demo_exit_without_patch': r.get('demo_exit_without_patch'),
                         'how': 'tools/seedtest.py: scratch copy of /repo + patch; pytest; demo with and without the patch'}
    meta['checks_run'] = {prop: [{'tier': 'quick', 'seed': o['seed'], 'exit': o['exit'], 'keys': o['keys']} for o in outs]}
    others = [p for p in meta.get('caught_by', []) if p != prop]
    meta['caught_by'] = sorted(set(([prop] if caught else []) + others))
    with open(os.path.join(d, 'meta.json'), 'w') as f:
        json.dump(meta, f, indent=1)
        f.write('\n')
    ok = r.get('tests_ok') and r.get('demo_exit_with_patch', 1) != 0 and r.get('demo_exit_without_patch', 0) == 0
    if not caught and meta.get('expected_miss_reason'):
        caught = 'out-of-domain'
    return sid, prop, caught, ok, [(o['exit'], o['keys'][:2]) for o in outs], r.get('error')


def main():
    args = sys.argv[1:]
    j = 4
    if args[:1] == ['-j']:
        j = int(args[1])
        args = args[2:]
    ids = args or sorted(os.listdir(os.path.join(HERE, 'seeded')))
    bad = 0
    with ThreadPoolExecutor(j) as ex:
        for sid, prop, caught, ok, outs, err in ex.map(one, ids):
            print(f"{sid:8s} {prop} {'expected-miss(recorded reason)' if caught == 'out-of-domain' else 'caught' if caught else 'MISSED'} {'confirmed' if ok else 'NOT-CONFIRMED ' + str(err)} {outs}")
            if not caught or not ok:
                bad += 1
    print('seeded defects:', len(ids), 'problems:', bad)
    return 1 if bad else 0


if __name__ == '__main__':
    sys.exit(main())
