#!/usr/bin/env python3
"""Markdown table of the seeded defects under /verif/seeded (from meta.json) for DESIGN.md 8b."""
import json, os, re
HERE = os.path.dirname(os.path.dirname(os.path.abspath(__file__)))
rows = []
for sid in sorted(os.listdir(os.path.join(HERE, 'seeded'))):
    m = json.load(open(os.path.join(HERE, 'seeded', sid, 'meta.json')))
    patch = open(os.path.join(HERE, 'seeded', sid, 'patch.diff')).read()
    files = sorted(set(re.findall(r'^\+\+\+ b/src/pjplan/(\S+)', patch, re.M)))
    txt = re.sub(r'[#*`|]', '', m['needs_to_manifest']).strip().split('\n')
    head = next((t.strip() for t in txt if len(t.strip()) > 15), '')[:150]
    own = m['checks_run'].get(m['property'], [])
    keys = sorted({k.split('/')[1] if '/' in k else k for o in own for k in o['keys']})[:3]
    caught = f"{', '.join(m['caught_by'])} ({'; '.join(keys)})"
    if m['property'] not in m['caught_by']:
        why = m.get('expected_miss_reason') or m.get('missed_note') or ''
        caught = ('own check silent; ' + (f"caught by {', '.join(m['caught_by'])}; " if m['caught_by'] else '') +
                  ('recorded reason: ' if m.get('expected_miss_reason') else 'MISSED (blind spot): ') + re.sub(r'[|\n]', ' ', why)[:300])
    rows.append(f"| {sid} | {', '.join(files)} | {head} | {caught} |")
print('| seeded | file | mechanism (first line of the author\'s note) | caught by (violation classes of the own check) |')
print('|---|---|---|---|')
print('\n'.join(rows))
