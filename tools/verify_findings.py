#!/usr/bin/env python3
"""Audit of KNOWN_FINDINGS.json: every witness is replayed (directed phase of the monitors) against
(a) the pinned original tree (a scratch worktree given as argv[1], e.g. /tmp/orig/src) where every entry must
    reproduce a violation with exactly its key, and
(b) /repo's working tree, where open entries must still reproduce and fixed entries must be silent.
usage: tools/verify_findings.py /tmp/orig/src
"""
import json
import os
import subprocess
import sys
import tempfile

HERE = os.path.dirname(os.path.dirname(os.path.abspath(__file__)))


def directed(src, prop, entries):
    with tempfile.TemporaryDirectory(dir=os.path.join(HERE, '.work')) as d:
        df = os.path.join(d, 'd.json')
        out = os.path.join(d, 'o.json')
        json.dump([{'id': e.get('_vid', e['key']), 'case': e['witness']} for e in entries], open(df, 'w'))
        env = dict(os.environ, PYTHONPATH=f'{src}:{HERE}:{HERE}/.deps', PYTHONHASHSEED='0', PYTHONDONTWRITEBYTECODE='1')
        subprocess.run([sys.executable, '-P', '-m', 'vf.worker', prop, 'quick', '0', '0', '1', '1', '600', out, df], cwd=HERE, env=env, timeout=900)
        r = json.load(open(out))
        if 'harness_error' in r:
            print(r['harness_error'])
            return {}
        return {x['id']: x for x in r['directed']}


def main():
    orig = sys.argv[1]
    kf = json.load(open(os.path.join(HERE, 'KNOWN_FINDINGS.json')))['findings']
    props = sorted({e['property'] for e in kf})
    bad = 0
    for p in props:
        es = [dict(e, _vid=f"{e['key']}#{n}") for n, e in enumerate(kf) if e['property'] == p]
        ro = directed(orig, p, es)
        rh = directed('/repo/src', p, es)
        for e in es:
            ko = sorted({v['key'] for v in ro.get(e['_vid'], {}).get('violations', [])}) if 'error' not in ro.get(e['_vid'], {}) else ['HARNESS-ERROR ' + ro[e['_vid']]['error'][-200:]]
            kh = sorted({v['key'] for v in rh.get(e['_vid'], {}).get('violations', [])}) if 'error' not in rh.get(e['_vid'], {}) else ['HARNESS-ERROR ' + rh[e['_vid']]['error'][-200:]]
            ok_o = e.get('key_at_pinned_commit', e['key']) in ko
            ok_h = (e['key'] in kh) if e['status'] == 'open' else (kh == [])
            flag = 'ok ' if ok_o and ok_h else 'BAD'
            if flag == 'BAD':
                bad += 1
            print(f"{flag} {e['status']:5s} {e['key']}\n      original: {ko}\n      head:     {kh}")
    print('problems:', bad)
    return 1 if bad else 0


if __name__ == '__main__':
    sys.exit(main())
