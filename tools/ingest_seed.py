#!/usr/bin/env python3
"""Takes the deliverables of a mutant-writing sub-agent (<worktree>/_seed/patchN.diff, demoN.py, notes.md), confirms them
in a scratch copy (tests still 84 passed, demo fails with the patch and passes without) and stores the confirmed ones
as /verif/seeded/<id>/ {patch.diff, demo.py, meta.json}.  Then runs the property's check against each.
usage: tools/ingest_seed.py /tmp/seed/C01a C01 [--extra-props C15,C16] [--tier quick]
"""
import argparse
import json
import os
import re
import shutil
import sys

HERE = os.path.dirname(os.path.dirname(os.path.abspath(__file__)))
sys.path.insert(0, os.path.join(HERE, 'tools'))
import seedtest  # noqa: E402


def main():
    ap = argparse.ArgumentParser()
    ap.add_argument('worktree')
    ap.add_argument('prop')
    ap.add_argument('--extra-props', default='')
    ap.add_argument('--tier', default='quick')
    ap.add_argument('--seeds', default='0')
    a = ap.parse_args()
    sd = os.path.join(a.worktree, '_seed')
    tag = os.path.basename(a.worktree.rstrip('/'))
    notes = open(os.path.join(sd, 'notes.md')).read() if os.path.exists(os.path.join(sd, 'notes.md')) else ''
    props = [a.prop] + [p for p in a.extra_props.split(',') if p]
    for n in (1, 2, 3):
        patch = os.path.join(sd, f'patch{n}.diff')
        demo = os.path.join(sd, f'demo{n}.py')
        if not os.path.exists(patch):
            continue
        sid = f'{tag}{n}'
        r = seedtest.run_one(patch, props, a.tier, [int(x) for x in a.seeds.split(',')], demo if os.path.exists(demo) else None)
        confirmed = r.get('tests_ok') and r.get('demo_exit_with_patch', 1) != 0 and r.get('demo_exit_without_patch', 0) == 0 and 'error' not in r
        caught = {p: any(o['exit'] == 1 for o in outs) for p, outs in r['props'].items()}
        print(sid, 'confirmed' if confirmed else 'NOT CONFIRMED', {k: r.get(k) for k in ('tests', 'demo_exit_with_patch', 'demo_exit_without_patch', 'error')})
        for p, outs in r['props'].items():
            print('   ', p, 'CAUGHT' if caught[p] else 'missed', [(o['exit'], o['keys'][:3]) for o in outs])
        if not confirmed:
            continue
        dst = os.path.join(HERE, 'seeded', sid)
        os.makedirs(dst, exist_ok=True)
        shutil.copy(patch, os.path.join(dst, 'patch.diff'))
        if os.path.exists(demo):
            # demonstrations refer to their scratch worktree only through PYTHONPATH
            shutil.copy(demo, os.path.join(dst, 'demo.py'))
            # helper modules the demonstrations import (anything else that is a .py file next to them)
            import glob as _glob, re as _re
            for extra in _glob.glob(os.path.join(os.path.dirname(demo), '*.py')):
                if not _re.fullmatch(r'demo\d+\.py', os.path.basename(extra)):
                    shutil.copy(extra, os.path.join(dst, os.path.basename(extra)))
        m = re.search(rf'(?is)(#+\s*patch\s*{n}.*?)(?=\n#+\s*patch\s*{n + 1}|\Z)', notes)
        meta = {
            'id': sid, 'property': a.prop, 'demo': 'demo.py' if os.path.exists(demo) else None,
            'written_by': 'independent sub-agent given only the property text and a scratch worktree',
            'needs_to_manifest': (m.group(1).strip() if m else notes.strip())[:3000],
            'confirmed': {'repo_tests_with_patch': r.get('tests'), 'demo_exit_with_patch': r.get('demo_exit_with_patch'),
                          'demo_exit_without_patch': r.get('demo_exit_without_patch'),
                          'how': 'tools/seedtest.py: scratch copy of /repo + patch; pytest; demo with and without the patch'},
            'checks_run': {p: [{'tier': a.tier, 'seed': o['seed'], 'exit': o['exit'], 'keys': o['keys']} for o in outs] for p, outs in r['props'].items()},
            'caught_by': sorted(p for p, c in caught.items() if c),
        }
        with open(os.path.join(dst, 'meta.json'), 'w') as f:
            json.dump(meta, f, indent=1)
            f.write('\n')


if __name__ == '__main__':
    main()
