#!/usr/bin/env python3
"""Stores the patches of a false-alarm sub-agent (<worktree>/_seed/patchN.diff + notes.md) under /verif/benign/<id>/ together
with the result of running all 20 checks against each (tools/benigntest.py).  usage: tools/ingest_benign.py /tmp/seed/R_viz"""
import json, os, re, shutil, subprocess, sys
HERE = os.path.dirname(os.path.dirname(os.path.abspath(__file__)))
wt = sys.argv[1].rstrip('/')
tag = os.path.basename(wt)
notes = open(os.path.join(wt, '_seed', 'notes.md')).read() if os.path.exists(os.path.join(wt, '_seed', 'notes.md')) else ''
for n in (1, 2, 3, 4):
    patch = os.path.join(wt, '_seed', f'patch{n}.diff')
    if not os.path.exists(patch):
        continue
    r = subprocess.run([sys.executable, os.path.join(HERE, 'tools', 'benigntest.py'), patch, '--cases', '300', '-j', '4'], capture_output=True, text=True)
    try:
        res = json.loads(r.stdout)
    except Exception:
        res = {'error': r.stdout[-500:] + r.stderr[-500:]}
    dst = os.path.join(HERE, 'benign', f'{tag}_{n}')
    os.makedirs(dst, exist_ok=True)
    shutil.copy(patch, os.path.join(dst, 'patch.diff'))
    m = re.search(rf'(?is)(#+[^\n]*patch\s*{n}.*?)(?=\n#+[^\n]*patch\s*{n + 1}|\Z)', notes)
    meta = {'id': f'{tag}_{n}', 'kind': 'behaviour-preserving refactoring' if n <= 2 else 'observable change no property constrains',
            'written_by': 'independent sub-agent given the 20 property texts and a scratch worktree',
            'author_note': (m.group(1).strip() if m else '')[:2500],
            'repo_tests_with_patch': res.get('tests'), 'alarms': res.get('alarms'), 'error': res.get('error'),
            'how': 'tools/benigntest.py: scratch copy of /repo + patch, every check with --cases 300'}
    json.dump(meta, open(os.path.join(dst, 'meta.json'), 'w'), indent=1)
    print(f'{tag}_{n}', res.get('tests'), 'ALARMS ' + json.dumps(res.get('alarms'))[:400] if res.get('alarms') else 'silent', res.get('error') or '')
