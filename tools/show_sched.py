"""debug helper: run a sched replay case and print the schedule + rows.  usage: PYTHONPATH=/repo/src:/verif python -P tools/show_sched.py replay.json"""
import sys, json
import vf.env
from vf import core, sched, mon_sched
rep = json.load(open(sys.argv[1]))
case = core.jrevive(rep['case'])
print(rep.get('key'), rep.get('msg'))
print({k: v for k, v in case.items() if k not in ('tasks',)})
for i, t in enumerate(case['tasks']):
    print(i, {k: v for k, v in t.items() if not (v is None or v is False or v == {})})
b = sched.build(case, log_queries=True)
s, res, outcome, exc = mon_sched.run_calc(case, b)
print('outcome', outcome, exc)
if res:
    for t in res.schedule.tasks:
        print(' task', t.id, t.start, t.end, t.estimate, t.spent, t.resource)
    for r in res.resource_usage.rows():
        print('  row', r.resource.name, r.date.date(), r.task.id, r.units)
