#!/usr/bin/env python3
"""Writes the prompts of a seeded-defect round: /tmp/seed/<Cxx><suffix>.prompt for every property, listing the mechanisms of all
defects already stored under /verif/seeded for that property (so that the new agents look elsewhere), and creates the scratch
worktrees /tmp/seed/<Cxx><suffix> of /repo's HEAD.  The agents get nothing from /verif: the prompt contains only the property
text and the one-line mechanism notes written by earlier agents.  usage: tools/mkseedprompts.py e [C01 C02 ...]"""
import json
import os
import re
import subprocess
import sys

HERE = os.path.dirname(os.path.dirname(os.path.abspath(__file__)))
suffix = sys.argv[1]
HINT = ''
if '--hint' in sys.argv:
    k_ = sys.argv.index('--hint')
    HINT = sys.argv[k_ + 1] + ' '
    del sys.argv[k_:k_ + 2]
props = {}
for ln in open(os.path.join(HERE, 'properties.jsonl')):
    p = json.loads(ln)
    props[p['id']] = p
ids = sys.argv[2:] or sorted(props)
head = subprocess.run(['git', '-C', '/repo', 'rev-parse', 'HEAD'], capture_output=True, text=True).stdout.strip()
os.makedirs('/tmp/seed', exist_ok=True)
for pid in ids:
    wt = f'/tmp/seed/{pid}{suffix}'
    if not os.path.isdir(wt):
        subprocess.run(['git', '-C', '/repo', 'worktree', 'add', '--detach', wt, head], capture_output=True)
    os.makedirs(os.path.join(wt, '_seed'), exist_ok=True)
    used = []
    for sid in sorted(os.listdir(os.path.join(HERE, 'seeded'))):
        if not sid.startswith(pid):
            continue
        m = json.load(open(os.path.join(HERE, 'seeded', sid, 'meta.json')))
        patch = open(os.path.join(HERE, 'seeded', sid, 'patch.diff')).read()
        files = sorted(set(re.findall(r'^\+\+\+ b/src/pjplan/(\S+)', patch, re.M)))
        txt = re.sub(r'\s+', ' ', m['needs_to_manifest']).strip()[:260]
        used.append(f"- ({', '.join(os.path.basename(f) for f in files)}) {txt}")
    p = props[pid]
    prompt = f'''You are helping to test a verification harness by producing realistic seeded defects ("mutants") for a small pure-Python library, pjplan (project planning: WBS task tree/DAG, forward/backward resource-calendar scheduling, critical path, CSV I/O, Mermaid/DHTMLX rendering).

Your scratch copy of the repository is the git worktree at: {wt}
Work ONLY inside that directory. Do not read or touch /verif or /repo. The library sources are in {wt}/src/pjplan, its tests in {wt}/tests.
IMPORTANT: python imports `pjplan` from an editable install of another directory unless you override it, so ALWAYS run python/pytest with `PYTHONPATH={wt}/src` and check `python -c "import pjplan; print(pjplan.__file__)"` prints a path under {wt}. Interpreter: /venv/bin/python. Test command: `cd {wt} && PYTHONPATH={wt}/src /venv/bin/python -m pytest -q -p no:cacheprovider tests` — on the unchanged tree 84 tests pass and exactly 4 fail (tests/test_pjplan/test_schedule.py::TestForwardScheduler::test_calc_2..test_calc_5 always fail because they depend on the wall clock; ignore them). Note the scheduler reads the clock with datetime.now(); if your demonstration needs scheduling, choose project start dates in the future (e.g. year 2030) or monkeypatch `pjplan.schedule.datetime`.

The property (a semantic guarantee users of the library rely on):

{p['title']}

{p['statement']}

It is claimed {p['quantifier']['text']}.

This property has been attacked many times before. The defects below were already produced by other people; do NOT reuse their mechanisms or trigger conditions. Find NEW ones. Read the whole code path the behaviour passes through first (helpers, shared utilities in other modules, constructors, __init__ files, code that prepares inputs or post-processes results, operators and dunder methods, default arguments) and look at EVERY clause and every quantifier of the property, including the ones nobody attacked yet. Think about: state that survives between calls; objects shared between two structures; aliasing of lists handed out or taken in; iteration while mutating; ids / names / values that are falsy, negative, very large, equal-but-not-identical, of an unexpected but legal type; empty and one-element inputs; deep nesting and many siblings; several WBSs, resources or calendars at once; options and argument forms that are rarely used; exact boundaries (midnight, week ends, validity bounds, zero, equality); the order in which things were built. {HINT}Prefer defects whose trigger is a conjunction of two or three independent conditions:
{chr(10).join(used)}

Your job: produce THREE different source changes to the library (call them patch1, patch2 and patch3, different mechanisms, each a small edit of 1-10 lines such as a realistic programmer slip: a dropped or inverted check, an off-by-one, a wrong variable, a missing mirror update, a swapped order of two statements, a boundary comparison, a lost special case, a "harmless" simplification or optimisation), each of which
  (1) breaks the property above,
  (2) still imports fine and leaves the test suite result unchanged (same 84 passing tests, same 4 clock-dependent failures),
  (3) is SUBTLE: it must need something specific to manifest — a particular multi-step sequence of operations, an unusual input, a particular ordering/traversal, a boundary value, a specific combination of options, or two cooperating sites that each look fine alone. Do NOT make a change that any ordinary first use of the feature would expose at once.
For each patch write a demonstration program that exits with status 1 (printing what went wrong) when run against the changed sources and exits 0 against the unchanged sources. The demonstration must use only the public API of pjplan.

Deliverables, all under {wt}/_seed/ :
  patch1.diff, patch2.diff, patch3.diff   - each produced with `git -C {wt} diff -- src` while ONLY that change is applied (apply one, save the diff, `git -C {wt} checkout -- src`, then do the other),
  demo1.py, demo2.py, demo3.py         - the demonstrations (run as `PYTHONPATH={wt}/src /venv/bin/python {wt}/_seed/demoN.py`),
  notes.md                   - for each patch a section headed `## patchN - <one line>`: which clause of the property it breaks, and exactly what is needed for it to manifest.
Before finishing, verify for EACH patch, yourself: with the patch applied the test command gives 84 passed / 4 failed and the demo exits 1; with the patch reverted the demo exits 0. Leave the worktree with NO patch applied (clean `git status` except the _seed directory). Report briefly what you did.
'''
    open(f'/tmp/seed/{pid}{suffix}.prompt', 'w').write(prompt)
    print(pid, 'prompt', len(prompt), 'chars;', len(used), 'earlier mechanisms; worktree', wt)
