#!/usr/bin/env python3
"""Re-runs every stored benign patch (benign/*/patch.diff) against all 20 checks and reports any alarm.  usage: tools/rebenign_all.py [-j 2] [ids...]"""
import json, os, subprocess, sys
from concurrent.futures import ThreadPoolExecutor
HERE = os.path.dirname(os.path.dirname(os.path.abspath(__file__)))
args = sys.argv[1:]
j = 2
if args[:1] == ['-j']:
    j = int(args[1]); args = args[2:]
ids = args or sorted(b for b in os.listdir(os.path.join(HERE, 'benign'))
                     if not json.load(open(os.path.join(HERE, 'benign', b, 'meta.json'))).get('retired'))
def one(bid):
    r = subprocess.run([sys.executable, os.path.join(HERE, 'tools', 'benigntest.py'), os.path.join(HERE, 'benign', bid, 'patch.diff'), '--cases', '250', '-j', '3'], capture_output=True, text=True)
    try:
        res = json.loads(r.stdout)
    except Exception:
        res = {'error': (r.stdout + r.stderr)[-300:], 'alarms': {'?': 1}}
    return bid, res
bad = 0
with ThreadPoolExecutor(j) as ex:
    for bid, res in ex.map(one, ids):
        al = res.get('alarms') or {}
        print(bid, res.get('tests'), 'silent' if not al and not res.get('error') else 'ALARM ' + json.dumps(al)[:500] + str(res.get('error') or ''), flush=True)
        if al or res.get('error'):
            bad += 1
print('benign patches:', len(ids), 'alarms:', bad)
sys.exit(1 if bad else 0)
