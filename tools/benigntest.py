#!/usr/bin/env python3
"""False-alarm test: applies a change that is claimed to keep all 20 properties true (a behaviour-preserving
refactoring, or a change of behaviour no property constrains) to a scratch copy of /repo and runs EVERY check against
it.  Any exit code other than 0 is an alarm that has to be explained: either the patch does break a property
(then it is not benign) or the oracle demands more than the property states (then the oracle is corrected).
usage: tools/benigntest.py <patch> [--cases n] [--props C01,C02]"""
import argparse
import json
import os
import re
import shutil
import subprocess
import sys
import tempfile
from concurrent.futures import ThreadPoolExecutor

HERE = os.path.dirname(os.path.dirname(os.path.abspath(__file__)))
ALL = ['C%02d' % i for i in range(1, 21)]


def main():
    ap = argparse.ArgumentParser()
    ap.add_argument('patch')
    ap.add_argument('--cases', default='400')
    ap.add_argument('--props', default='')
    ap.add_argument('-j', type=int, default=3)
    a = ap.parse_args()
    props = [p for p in a.props.split(',') if p] or ALL
    scratch = tempfile.mkdtemp(prefix='vfbenign_', dir='/tmp')
    out = {'patch': a.patch, 'alarms': {}}
    try:
        subprocess.run(f'rsync -a --exclude .git --exclude __pycache__ --exclude _seed /repo/ {scratch}/', shell=True)
        r = subprocess.run(f'cd {scratch} && patch -p1 --no-backup-if-mismatch < {os.path.abspath(a.patch)}', shell=True, capture_output=True, text=True)
        if r.returncode != 0:
            out['error'] = 'patch does not apply: ' + (r.stdout + r.stderr)[-300:]
            print(json.dumps(out, indent=1))
            return 2
        t = subprocess.run(f'cd {scratch} && PYTHONPATH={scratch}/src /venv/bin/python -m pytest -q -p no:cacheprovider tests 2>&1 | tail -1', shell=True, capture_output=True, text=True)
        out['tests'] = t.stdout.strip()

        def run(prop):
            env = dict(os.environ, VERIF_REPO_SRC=f'{scratch}/src')
            c = subprocess.run([os.path.join(HERE, 'check'), prop, '--no-evidence', '--cases', a.cases], cwd=HERE, env=env, capture_output=True, text=True)
            return prop, c.returncode, c.stdout
        with ThreadPoolExecutor(a.j) as ex:
            for prop, rc, so in ex.map(run, props):
                if rc != 0:
                    out['alarms'][prop] = {'exit': rc, 'keys': sorted(set(re.findall(r'violation: key=(\S+)', so)))[:8],
                                           'first': [ln[:300] for ln in so.split('\n') if ln.startswith(('violation:', 'INCONCLUSIVE'))][:3]}
    finally:
        shutil.rmtree(scratch, ignore_errors=True)
    print(json.dumps(out, indent=1))
    return 1 if out['alarms'] else 0


if __name__ == '__main__':
    sys.exit(main())
