#!/usr/bin/env python3
"""Regenerates /verif/MANIFEST.json from the registry (only properties whose monitor module exists)."""
import json
import os
import sys

HERE = os.path.dirname(os.path.dirname(os.path.abspath(__file__)))
sys.path.insert(0, HERE)
from vf import registry  # noqa: E402

TEXT = {
    'C01': ('W-HIST histories + whole-graph invariant walker after every call',
            'Held-on-observed: the forest/link invariants were evaluated on the public-API snapshot after every call (returning '
            'or raising) of thousands of generated hostile mutation histories over every public mutator.', '5/C01'),
    'C05': ('W-HIST histories + uniqueness walker + lookup/DFS reference model',
            'Held-on-observed: id uniqueness per WBS/detached tree after every call; wbs[id] and WBS.tasks compared with a '
            'reference lookup/DFS for every id of the universe in every reached state.', '5/C05'),
    'C11': ('W-HIST histories + owner==reachability monitor + removal-effect and released-task-refused clauses against the outcome-following model + re-attachment tail',
            'Held-on-observed: Task.wbs compared with reachability for every (task, WBS) pair after every call; every released '
            'task is re-attached to a fresh WBS at the end of each history.', '5/C11'),
    'C15': ('W-HIST histories + snapshot equality around every raising call',
            'Held-on-observed: for every rejected call the complete observable state (relations, order, owners, roots, '
            'attributes) after equals the state before.', '5/C15'),
    'C16': ('W-HIST histories + outcome-following reference model of documented effects',
            'Held-on-observed: for every accepted call the whole-graph snapshot equals an admissible state of the reference '
            'model (frame included).', '5/C16'),
    'C10': ('clone/subtree of reachable states + three-snapshot model comparison + independence tail',
            'Held-on-observed: copies compared field by field with the source, source unchanged, later mutations on one side '
            'invisible on the other.', '5/C10'),
    'C18': ('reference evaluator of the filter language over W-HIST states',
            'Held-on-observed: every query result equals the reference selection, queries change nothing, bulk operations '
            'touch exactly the selection.', '5/C18'),
    'C02': ('forward schedules under a controlled clock + prerequisite-closure oracle over rows and reserve events',
            'Held-on-observed on generated WBS x calendar x configuration combinations.', '5/C02'),
    'C03': ('ProbeResource reserve-hook assertions + offline ledger checks',
            'Held-on-observed: every reservation event and every usage row of both schedulers checked against capacity.', '5/C03'),
    'C04': ('ledger conservation / date-consistency oracle over rows of both schedulers',
            'Held-on-observed.', '5/C04'),
    'C06': ('input snapshots around calc + metamorphic run pairs (same/fresh scheduler, clock pairs)',
            'Held-on-observed.', '5/C06'),
    'C07': ('bottom-up roll-up oracle on every returned schedule', 'Held-on-observed.', '5/C07'),
    'C08': ('tightness + date-encoding oracle over ordered reserve events; removal metamorphic pairs',
            'Held-on-observed.', '5/C08'),
    'C09': ('backward-schedule oracle (deadline, dependencies, late packing, end-of-day encoding)',
            'Held-on-observed.', '5/C09'),
    'C14': ('exception-type classifier + unschedulability predicates + logical step budgets (capacity queries at the IResource hook; '
            'sys.monitoring PY_START call counter on pjplan/schedule.py for work that asks no resource)',
            'Held-on-observed; termination restated as bounded progress in capacity queries and in calls of scheduler functions.', '5/C14'),
    'C12': ('exact longest-path reference (Fraction) vs critical_path(), snapshot equality around the call, random + exhaustive small-scope workloads',
            'Held-on-observed.', '5/C12'),
    'C13': ('CSV round trip: model comparison, byte fixpoint, independent reference writer',
            'Held-on-observed.', '5/C13'),
    'C17': ('calendar AST reference evaluator + brute-force availability search + definition-validation classes',
            'Held-on-observed.', '5/C17'),
    'C19': ('HTML-level parse of produced documents + Mermaid line grammars + JSON decode vs schedule',
            'Held-on-observed.', '5/C19'),
    'C20': ('structural reference renderer for printed sheets (colour codes stripped)', 'Held-on-observed.', '5/C20'),
}


def main():
    checks = []
    na = []
    for prop in sorted(registry.REG):
        modname = registry.REG[prop][0]
        path = os.path.join(HERE, *modname.split('.')) + '.py'
        if not os.path.exists(path):
            na.append({'property_id': prop, 'reason': 'monitor not built yet (work in progress; runtime monitoring applies, see DESIGN.md 5/' + prop + ')'})
            continue
        tech, text, ref = TEXT[prop]
        checks.append({
            'property_id': prop,
            'quick_cmd': f'./check {prop} --tier quick',
            'thorough_cmd': f'./check {prop} --tier thorough',
            'evidence_file': f'evidence/{prop}.json',
            'replay_cmd_template': f'./check {prop} --replay {{path}}',
            'engine': 'vf',
            'level_claimed': {'category': 'exploration', 'text': text + ' Not a proof: bounded generated inputs.',
                              'design_ref': 'DESIGN.md ' + ref},
            'level_note': 'Trusted base: CPython 3.12, the harness oracles in vf/, the controlled clock hook; pjplan is imported '
                          'from /repo/src in fresh interpreters; bounded sizes (DESIGN 2.8).',
            'technique': 'runtime monitoring: ' + tech,
        })
    m = {
        'version': 1,
        'setup_cmd': './setup.sh',
        'hooks': {
            'guard': 'PJPLAN_VERIF',
            'enable': 'no source hooks: every monitor is attached from the harness at import time (clock subclass swapped into '
                      'the datetime module before pjplan is imported, ProbeResource objects passed through the public IResource '
                      'extension point, snapshots through public getters); ./check sets PJPLAN_VERIF=1 for information only',
            'baseline_off_cmd': 'cd /repo && /venv/bin/python -m pytest -ra -q -p no:cacheprovider --timeout=900 '
                                '--continue-on-collection-errors',
            'source_commits': [],
            'add_only': True,
        },
        'engines': [{'name': 'vf', 'path': 'vf/', 'serves_properties': [c['property_id'] for c in checks],
                     'kind_free_text': 'python runtime monitors: invariant walkers, reference models, event-log checkers'}],
        'checks': checks,
        'not_applicable': na,
        'notes': 'Known genuine defects: KNOWN_FINDINGS.json (open = recorded, fixed = repaired by fix: commits in /repo). '
                 'Exit 2 = inconclusive (never prints VIOLATION).',
    }
    with open(os.path.join(HERE, 'MANIFEST.json'), 'w') as f:
        json.dump(m, f, indent=1)
        f.write('\n')
    try:
        sys.path.insert(0, os.path.join(HERE, '.deps'))
        import jsonschema
        jsonschema.validate(m, json.load(open('/root/.vp/MANIFEST.schema.json')))
        print('MANIFEST.json valid;', len(checks), 'checks,', len(na), 'not yet claimed')
    except ImportError:
        print('jsonschema not available; not validated')


if __name__ == '__main__':
    main()
