#!/usr/bin/env python3
"""Builds /verif/KNOWN_FINDINGS.json (committed; never written by a check).

open  = genuine defect recorded, not repaired: suppresses exactly its own mechanism key.
fixed = genuine defect repaired by the named fix: commit in /repo; suppresses nothing; its witness is replayed
        as a regression case by every run of the property's check.
Every witness is a concrete failing input/history in the replay format of the property's monitor.
"""
import json
import os

HERE = os.path.dirname(os.path.dirname(os.path.abspath(__file__)))


def dt(*a):
    return {'$dt': list(a) + [0] * (7 - len(a))}


def H(ids, ops, wbs=1, names=None):
    return {'kind': 'history', 'spec': {'tasks': [{'id': i, 'name': (names[k] if names else 'n0')} for k, i in enumerate(ids)], 'wbs': wbs}, 'ops': ops}


def T(i, **kw):
    d = {'id': i, 'name': f't{i}', 'parent': None, 'estimate': None, 'spent': None, 'resource': None, 'milestone': False,
         'min_start': None, 'start': None, 'end': None, 'attrs': {}}
    d.update(kw)
    return d


def S(tasks, **kw):
    c = {'kind': 'sched', 'tasks': tasks, 'links': [], 'externals': [], 'resources': {'<none>': 'missing'}, 'dir': 'fwd',
         'date': dt(2026, 1, 5), 'now': dt(2025, 12, 1), 'balance': True, 'default_estimate': 0, 'class': 'wellformed'}
    c.update(kw)
    return c


DIVCAL = ['div', ['weekly', {'days': [0, 1, 2, 3, 4, 5, 6], 'units': 8}], ['weekly', {'days': [0, 1, 2, 3, 4], 'units': 2}]]
F = []


def open_(prop, key, what, witness):
    F.append({'property': prop, 'key': key, 'status': 'open', 'what': what, 'witness': witness})


def fixed(prop, key, commit, what, witness, pinned_key=None):
    e = {'property': prop, 'key': key, 'status': 'fixed', 'commit': commit, 'what': what, 'witness': witness,
         'fixed_line': f'fixed: property={prop} {commit} {what}'}
    if pinned_key:
        # at the pinned commit the same input already fails with another key (an earlier defect, repaired by an earlier
        # fix: commit, sits in front of this one); the key above is what the parent of `commit` shows
        e['key_at_pinned_commit'] = pinned_key
    F.append(e)


# ------------------------------------------------------------------------------------------------- open findings
open_('C15', 'C15/bulk_parent:partial-prefix',
      'bulk assignment `task_list.parent = x` re-parents the tasks one by one and stops at the first one x rejects, leaving the earlier ones moved (F-T9)',
      H([1, 2, 3, 3], [['children=', ['t', 't0'], ['t1', 't2'], 'list'], ['bulk_parent', ['t', 't0'], 't3']]))
open_('C15', 'C15/list_lshift:partial-prefix',
      '`task_list << x` adds the predecessor task by task and stops at the first task that rejects it (cycle), leaving the earlier links in place (F-T9)',
      H([1, 2, 3, 4], [['children=', ['t', 't0'], ['t1', 't2'], 'list'], ['preds=', 't3', ['t2'], 'list'], ['list_lshift', ['t', 't0'], ['t3']]]))
open_('C15', 'C15/list_rshift:partial-prefix',
      '`task_list >> x` adds the successor task by task and stops at the first task that rejects it (cycle), leaving the earlier links in place (F-T9)',
      H([1, 2, 3, 4], [['children=', ['t', 't0'], ['t1', 't2'], 'list'], ['succs=', 't3', ['t2'], 'list'], ['list_rshift', ['t', 't0'], ['t3']]]))
open_('C06', 'C06/clock-dependence/clock-inside-project-start-day',
      'forward result depends on the clock although the clock is not later than the project start: with project start = clock = 10:00 a zero-work task ends at 10:00, with an earlier clock at 00:00 (dates are capacity-encoded from midnight and then clamped by max(.., now)) (F-S5)',
      S([T(1, estimate=0)], date=dt(2026, 1, 5, 10), now=dt(2026, 1, 5, 10)))
open_('C07', 'C07/leaf-start-after-end/user-fixed-start-after-encoded-end',
      'a user-fixed start with a time of day later than the capacity-encoded end on the same day gives start > end (fixed start 23:00, 4 of 8 units that day -> end 12:00) (F-S6)',
      S([T(1, estimate=4, start=dt(2026, 1, 5, 23))]))
open_('C07', 'C07/leaf-start-after-end/user-fixed-end-without-start',
      'forward: a completed leaf for which only the end date was recorded (no start) gets a freshly scheduled start (>= today), later than its fixed end (F-S8)',
      S([T(1, estimate=8, end=dt(2025, 11, 20))]))
open_('C14', 'C14/ZeroDivisionError/fwd/calendar-divisor-zero',
      'a resource calendar built with cal / cal whose divisor calendar is 0 on some day makes ForwardScheduler.calc raise ZeroDivisionError (F-K5)',
      S([T(1, estimate=48, resource='A')], resources={'A': DIVCAL}, **{'class': 'any'}))
open_('C14', 'C14/ZeroDivisionError/bwd/calendar-divisor-zero',
      'a resource calendar built with cal / cal whose divisor calendar is 0 on some day makes BackwardScheduler.calc raise ZeroDivisionError (F-K5)',
      S([T(1, estimate=8, resource='A')], dir='bwd', date=dt(2026, 2, 2), now=dt(2020, 1, 1), resources={'A': DIVCAL}, **{'class': 'any'}))
_two = S([T(1, estimate=8), T(2, estimate=8)], links=[[1, 0]], now=dt(2020, 1, 1))
open_('C19', 'C19/network/edges/name-with-closing-braces',
      "Mermaid network: a task name containing '}}' (or ending with '}') closes the {{...}} node text early, so the edge lines of that task cannot be read back (name 'x}}y') (F-V2)",
      {'kind': 'viz', 'sched': _two, 'names': {'1': 'x}}y', '2': 'plain'}, 'sections': {}, 'now': dt(2020, 1, 1), 'styles': False})

_zero = S([T(0, estimate=8), T(2, estimate=8)], links=[[1, 0]], now=dt(2020, 1, 1))
open_('C19', 'C19/network/edges/task-id-0-collides-with-start-node',
      "Mermaid network: the Start node is written with the node id 0, so a task whose id is 0 (a legal id) is merged with it: its dependency edges read as Start edges (F-V3)",
      {'kind': 'viz', 'sched': _zero, 'names': {'0': 'zero', '2': 'two'}, 'sections': {}, 'now': dt(2020, 1, 1), 'styles': False})

# ------------------------------------------------------------------------------------------------- fixed (regressions)
fixed('C01', 'C01/self-link/preds=:list', 'b6bd215', 't.predecessors = [t] accepted (self link; all_predecessors then recurses forever) (F-T1)',
      H([1, 2], [['preds=', 't0', ['t0'], 'list']]))
fixed('C01', 'C01/link-to-ancestor/preds=:list', 'b6bd215', 'a descendant accepted as predecessor of its ancestor (F-T2)',
      H([1, 2], [['children=', ['t', 't0'], ['t1'], 'list'], ['preds=', 't0', ['t1'], 'list']]))
fixed('C01', 'C01/ancestor-cycle/parent=:self', '701d769', 't.parent = t accepted (F-T4)', H([1, 2], [['parent=', 't0', 't0']]))
fixed('C01', 'C01/link-to-ancestor/parent=:linked', '701d769', 'a.predecessors=[b]; a.parent=b accepted (link then parent) (F-T3)',
      H([1, 2], [['preds=', 't0', ['t1'], 'list'], ['parent=', 't0', 't1']]))
fixed('C01', 'C01/asymmetric-link/preds=:list', '161a40c', 't>>u twice then u.predecessors=[] leaves u in t.successors (F-T4b)',
      H([1, 2], [['rshift', 't0', ['t1'], True], ['rshift', 't0', ['t1'], True], ['preds=', 't1', [], 'list']]))
fixed('C01', 'C01/dependency-cycle/rshift', '21998ea', 'dependency cycle accepted when two tasks of the closure share an id (F-T12)',
      H([1, 2, 3, 4, 5, 1, 7], [['rshift', 't3', ['t0', 't6'], False], ['rshift', 't0', ['t2', 't1', 't5'], False], ['rshift', 't5', ['t3'], True]]))
fixed('C11', 'C11/owner-but-not-member/wbs.remove', '100fa3d', 'w.remove(a) leaves a.wbs is w; a cannot be attached to another WBS (F-T6)',
      H([1, 2], [['append', ['w', 'w0'], 't0'], ['wbs.remove', 'w0', 't0']]))
fixed('C05', 'C05/duplicate-id-in-wbs/append', '9dfc3cf', 'a duplicate of an id living in another branch of the same WBS is accepted (F-T5)',
      H([1, 2, 3, 3], [['append', ['w', 'w0'], 't0'], ['append', ['w', 'w0'], 't1'], ['append', ['t', 't0'], 't2'], ['append', ['t', 't1'], 't3']]))
fixed('C15', 'C15/insert:idx==len:new', 'ade99ef', 'roots.insert(len, x) raises after x was re-parented and taken out of the list (F-T7)',
      H([1, 2], [['append', ['w', 'w0'], 't0'], ['insert', ['w', 'w0'], 1, 't1']]))
fixed('C15', 'C15/move:no-anchor', 'f063e16', 'children.move(x) without anchor raises after removing x from the list (F-T7)',
      H([1, 2, 3], [['children=', ['t', 't0'], ['t1', 't2'], 'list'], ['move', ['t', 't0'], ['t1'], None, None, True]]))
fixed('C16', 'C16/stale.lremove', 'ecaaa4c', 'a children view taken before sort() writes back a stale list and drops a later-appended child (F-T13)',
      H([1, 2, 3, 4], [['children=', ['t', 't0'], ['t1', 't2'], 'list'], ['stale.get', 's0', ['t', 't0']], ['sort', ['t', 't0'], 'name', False],
                       ['append', ['t', 't0'], 't3'], ['stale.use', 's0', ['lremove', ['t', 't0'], 't1']]]))
fixed('C16', 'C16/view.succs.remove', '83854cf', 'a successors view taken before an edit is stale: view.remove(x) answers False and leaves x linked (F-T14)',
      H([1, 2, 3], [['linkview.get', 'v0', ['succs', 't0']], ['succs.append', 't0', 't1'], ['linkview.use', 'v0', ['succs.remove', 't0', 't1']]]))
fixed('C15', 'C15/children=:list', '280ae80', 'a.children=[Task(5),Task(5)] raises after detaching the old children (F-T8)',
      H([1, 5, 5, 9], [['children=', ['t', 't0'], ['t3'], 'list'], ['children=', ['t', 't0'], ['t1', 't2'], 'list']]))

fixed('C02', 'C02/start-before-inherited-prerequisite', 'b6cff57', 'forward: a child reached through a successor edge before its parent ignores the predecessors of its parents (F-S1)',
      S([T(1, estimate=8), T(2, estimate=16), T(3), T(4, estimate=8, parent=2)], links=[[0, 3], [2, 1]]))
fixed('C09', 'C09/dependency-violated/inherited', '72edeb6', 'backward: a child reached through a predecessor edge before its parent ignores the successors of its parents (F-S1 mirrored)',
      S([T(1), T(2, estimate=8, parent=0), T(3, estimate=16), T(4, estimate=8)], links=[[2, 0], [1, 3]], dir='bwd', date=dt(2026, 2, 6), now=dt(2020, 1, 1)))
fixed('C07', 'C07/summary-start/fwd', 'c764d7c', 'project start 23:00: summary start 23:00 is later than its child start 00:00 (F-S2)',
      S([T(1), T(2, estimate=8, parent=0)], date=dt(2026, 1, 5, 23)))
fixed('C14', 'C14/RecursionError/fwd', '4326288', 'forward: S{L}; L.pred=[X]; X.pred=[S] dies with RecursionError (F-S3)',
      S([T(1), T(2, estimate=8, parent=0), T(3, estimate=2)], links=[[1, 2], [2, 0]], **{'class': 'unschedulable'}))
fixed('C14', 'C14/schedule-returned-for-unschedulable/cycle-through-hierarchy/bwd', '4326288', 'backward: S{L}; L.pred=[X]; X.pred=[S] returns a schedule (F-S3)',
      S([T(1), T(2, estimate=8, parent=0), T(3, estimate=2)], links=[[1, 2], [2, 0]], dir='bwd', date=dt(2026, 2, 6), now=dt(2020, 1, 1), **{'class': 'unschedulable'}))
fixed('C04', 'C04/start-not-within-first-reserved-day/bwd/per-task', 'f736a89', 'backward, balancing off: start derived from all tasks bookings lies before the first reserved day (F-S4)',
      S([T(1, estimate=4), T(2, estimate=4), T(3, estimate=4)], dir='bwd', date=dt(2026, 2, 6), now=dt(2020, 1, 1), balance=False))
fixed('C06', 'C06/task-without-dates', 'b0582f8', 'forward: a predecessor outside the WBS that carries the id of a member marks that id as calculated; the member is never scheduled and comes back without start and end (F-S9)',
      S([T(1, estimate=8), T(2, estimate=8)], externals=[{'id': 2, 'start': dt(2026, 1, 1), 'end': dt(2026, 1, 9), 'succ': [0], 'estimate': None, 'in_other_wbs': False}]),
      pinned_key='C06/result-structure-differs')
fixed('C14', 'C14/schedule-returned-for-unschedulable/external-predecessor-without-dates/fwd', 'b0582f8', 'an outside predecessor without dates is accepted when its id equals the id of a member (pre-flight check looked ids up instead of objects) (F-S9)',
      S([T(1, estimate=8), T(2, estimate=8)], externals=[{'id': 2, 'start': None, 'end': None, 'succ': [0], 'estimate': None, 'in_other_wbs': False}], **{'class': 'unschedulable'}))
_XB = S([T(1, estimate=8), T(2, estimate=8)], dir='bwd', date=dt(2026, 2, 6), now=dt(2020, 1, 1),
        externals=[{'id': 100, 'start': dt(2026, 1, 20), 'end': dt(2026, 1, 22), 'succ': [], 'succ_of': [0], 'estimate': 16, 'in_other_wbs': False}])
_XF = S([T(1, estimate=8)], externals=[{'id': 100, 'start': dt(2026, 1, 1), 'end': dt(2026, 1, 9), 'succ': [0], 'estimate': None, 'in_other_wbs': True,
                                        'kid': {'id': 101, 'estimate': 8}}])
fixed('C03', 'C03/row-not-of-this-schedule', 'b0009eb', 'backward: a successor outside the WBS (dated task of another project, estimate 16) is scheduled like a member: the usage report books capacity for it although it is not a task of the returned schedule (F-S10)', _XB)
fixed('C04', 'C04/rows-of-tasks-outside-the-schedule', 'b0009eb', 'forward: the undated child of an outside summary predecessor is scheduled and gets usage rows although it is not a task of the returned schedule (F-S10)', _XF)
fixed('C04', 'C04/rows-of-tasks-outside-the-schedule', 'b0009eb', 'backward: usage rows for a successor outside the WBS (F-S10)', _XB)
fixed('C14', 'C14/TypeError/fwd', '027265b', "a Resource named None (the resource of tasks without a resource name) that runs out of capacity: the RuntimeError message formats the resource, Resource.__str__ returns None, calc dies with TypeError: __str__ returned non-string (F-S11)",
      S([T(1, estimate=40)], resources={'<none>': ['direct', [[dt(2026, 1, 5), 2]]]}, **{'class': 'any'}))


def CP(tasks, links, ext=()):
    return {'kind': 'cp', 'tasks': tasks, 'links': links, 'externals': list(ext)}


fixed('C12', 'C12/empty-result', '92379d1', 'estimates 0.1 -> 0.2 in parallel with 0.3: empty critical path (F-P1)',
      CP([{'id': 1, 'parent': None, 'estimate': '0.1', 'spent': None}, {'id': 2, 'parent': None, 'estimate': '0.2', 'spent': None},
          {'id': 3, 'parent': None, 'estimate': '0.3', 'spent': None}], [[1, 0]]))
fixed('C12', 'C12/raised-KeyError/summary-predecessor', 'fbd7d86', 'a predecessor that is a parent task raises KeyError (F-P2)',
      CP([{'id': 1, 'parent': None, 'estimate': None, 'spent': None}, {'id': 2, 'parent': 0, 'estimate': '1', 'spent': None},
          {'id': 3, 'parent': None, 'estimate': '2', 'spent': None}], [[2, 0]]))
fixed('C12', 'C12/non-member-in-result/external-predecessor', 'aa24567', 'a predecessor outside the WBS is returned as critical (F-P3)',
      CP([{'id': 1, 'parent': None, 'estimate': '1', 'spent': None}], [], [{'id': 100, 'estimate': '5', 'succ': [0]}]))

D1, D0 = dt(2026, 1, 8), dt(2026, 1, 5)


def DEF(cls, ast):
    return {'kind': 'definition', 'class': cls, 'valid': False, 'ast': ast}


fixed('C17', 'C17/invalid-definition-accepted/start-after-end/weekly', '19c8dc2', 'WeeklyCalendar(start > end) accepted (F-K1)',
      DEF('start-after-end/weekly', ['weekly', {'days': [0, 1, 2], 'units': 8, 'start': D1, 'end': D0}]))
fixed('C17', 'C17/invalid-definition-accepted/start-after-end/fixed', '2cda27c', 'FixedCalendar(1, start > end) accepted (F-K1)',
      DEF('start-after-end/fixed', ['fixed', 3, D1, D0]))
fixed('C17', 'C17/invalid-definition-accepted/weekday-out-of-range/dict', 'cbd62c6', 'WeeklyCalendar(units_per_day={9: 1}) accepted (F-K2)',
      DEF('weekday-out-of-range/dict', ['weeklyd', {'map': {'0': 8, '9': 1}}]))
fixed('C17', 'C17/value/direct+set_units/random', '290f311', 'DirectCalendar.set_units({d 13:00: 2}) is never found by lookups (F-K4)',
      {'kind': 'calendar', 'ast': ['direct', [], [[dt(2026, 1, 5, 13), 2]]], 'dates': [[dt(2026, 1, 5, 9), 'random']], 'searches': []})
fixed('C17', 'C17/invalid-definition-accepted/negative-units/direct', 'ea38afe', 'DirectCalendar({d: -3}) accepted (F-K3)',
      DEF('negative-units/direct', ['direct', [[D0, -3]], []]))
fixed('C17', 'C17/invalid-definition-accepted/negative-units/direct-set_units', 'ea38afe', 'DirectCalendar.set_units({d: -3}) accepted (F-K3)',
      DEF('negative-units/direct-set_units', ['direct', [[D0, 1]], [[D1, -3]]]))


def CT(i, parent=None, **kw):
    d = {'id': i, 'name': f'n{i}', 'resource': None, 'start': None, 'end': None, 'estimate': None, 'spent': None, 'milestone': False,
         'min_start': None, 'parent': parent, 'custom': {}}
    d.update(kw)
    return d


fixed('C13', 'C13/roundtrip-children/parent-id-0', 'b10f5ae', 'a child of the task with id 0 comes back from the CSV round trip as a root task (F-I1)',
      {'kind': 'csv', 'tasks': [CT(0), CT(5, parent=0)], 'links': []})
fixed('C13', 'C13/roundtrip-min_start', 'f2d38b6', 'min_start is not restored by read_csv (F-I2)',
      {'kind': 'csv', 'tasks': [CT(1, min_start=dt(2026, 1, 5))], 'links': []})
fixed('C13', 'C13/hand-written-read-raised-KeyError/bom', '37ad3e3', 'a fully quoted file with a UTF-8 BOM fails with KeyError: id (F-I3)',
      {'kind': 'hand', 'model': {'kind': 'csv', 'tasks': [CT(1)], 'links': []},
       'opts': {'eol': '\n', 'bom': True, 'quoting': 'all', 'custom_order': 'sorted', 'no_final_eol': False, 'false_text': 'False'}})
fixed('C13', 'C13/hand-written-read-raised-KeyError/bom', 'ae229dd', "a fully quoted file with a UTF-8 BOM read with encoding='utf_8' (or 'U8', 'UTF8': other spellings of UTF-8) fails with KeyError: id (F-I4)",
      {'kind': 'hand', 'model': {'kind': 'csv', 'tasks': [CT(1)], 'links': []},
       'opts': {'eol': '\n', 'bom': True, 'quoting': 'all', 'custom_order': 'sorted', 'no_final_eol': False, 'false_text': 'False', 'read_encoding': 'utf_8'}},
      pinned_key='C13/hand-written-read-raised-KeyError/bom')

fixed('C19', 'C19/gantt/task-lines', '6557d2b', "Mermaid gantt: a name containing '</div>' swallows the following task lines when the page is parsed as HTML (F-V1)",
      {'kind': 'viz', 'sched': _two, 'names': {'1': 'a</div>b', '2': 'plain'}, 'sections': {}, 'now': dt(2020, 1, 1), 'styles': False})
fixed('C19', 'C19/dhtmlx/json-malformed', 'f4e2bf9', "DHTMLX: a name containing '</script>' ends the script element inside a JSON string (F-V1)",
      {'kind': 'viz', 'sched': _two, 'names': {'1': 'a</script>b', '2': 'plain'}, 'sections': {}, 'now': dt(2020, 1, 1), 'styles': False})

_qw = {'tasks': [{'id': 1, 'name': 'alpha', 'estimate': 5}, {'id': 2, 'name': 'beta', 'estimate': 1}], 'wbs': 1, 'parents': [None, None], 'detached': [False, False]}
fixed('C18', 'C18/query-selection/=/estimate-spent', 'a2b191a', 'lst(estimate=5) never matches (estimate/spent live in private slots) (F-T11)',
      {'kind': 'query', 'world': _qw, 'steps': [{'list': 'tasks', 'of': 0, 'op': 'query', 'kw': {'estimate': 5}}]})
fixed('C18', 'C18/query-selection/=/callable+keywords', '7e163f2', 'lst(f, id=2) ignores the keyword filter (F-T11)',
      {'kind': 'query', 'world': _qw, 'steps': [{'list': 'tasks', 'of': 0, 'op': 'query', 'kw': {'id': 2}, 'callable_ids': [1, 2]}]})

fixed('C10', 'C10/clone/copy-differs/external-links/external-link-with-member-id', '7d2e85a',
      'clone: a predecessor outside the WBS whose id equals a member id is replaced by that member clone (F-T10)',
      {'kind': 'clone', 'spec': {'tasks': [{'id': 1, 'name': 'n0'}, {'id': 2, 'name': 'n0'}, {'id': 2, 'name': 'n0'}], 'wbs': [{}, {}]},
       'attrs': [], 'wattrs': [], 'ops': [['append', ['w', 'w0'], 't0'], ['append', ['w', 'w0'], 't1'], ['preds=', 't0', ['t2'], 'list']],
       'kinds': ['clone'], 'sel': [[0]], 'sel_as_list': True, 'tail': [], 'only_wbs': 0})

out = {
    'comment': 'Committed list of genuine defects of pjplan found by the monitors. status=open: recorded, not repaired (suppresses only its own '
               'mechanism key, printed as KNOWN-FINDING when its witness reproduces). status=fixed: repaired by the named fix: commit in '
               '/repo; suppresses nothing; its witness is replayed as a regression case on every run. Generated by tools/mkfindings.py; '
               'never written at run time.',
    'fixed': [f['fixed_line'] for f in F if f['status'] == 'fixed'],
    'findings': F,
}
with open(os.path.join(HERE, 'KNOWN_FINDINGS.json'), 'w') as f:
    json.dump(out, f, indent=1)
    f.write('\n')
print(len([f for f in F if f['status'] == 'open']), 'open,', len([f for f in F if f['status'] == 'fixed']), 'fixed')
