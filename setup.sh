#!/bin/bash
# Offline setup.  The monitors need nothing beyond /venv's interpreter and the standard library.  jsonschema (used only to
# validate the evidence files the checks write) is installed into /verif/.deps from the local wheelhouse when possible;
# if that fails the checks still run and skip the validation.  Idempotent.
cd "$(dirname "$0")"
mkdir -p .work evidence replays
if [ ! -f .deps/.ok ]; then
  rm -rf .deps
  if PIP_NO_INDEX=1 /venv/bin/pip install -q --no-index --find-links /opt/veriftools/wheels \
      --target .deps jsonschema >/dev/null 2>&1; then
    touch .deps/.ok
  else
    echo "setup: jsonschema could not be installed offline; evidence files will not be schema-validated" >&2
    mkdir -p .deps
  fi
fi
exit 0
