#!/bin/bash
# Offline setup: third-party helpers (jsonschema for evidence validation, icontract for
# contract hooks) go into /verif/.deps from the local wheelhouse. Idempotent.
set -e
cd "$(dirname "$0")"
if [ ! -f .deps/.ok ]; then
  rm -rf .deps
  PIP_NO_INDEX=1 /venv/bin/pip install -q --no-index --find-links /opt/veriftools/wheels \
      --target .deps jsonschema icontract >/dev/null 2>&1 || {
        echo "setup: offline install of jsonschema/icontract failed" >&2; exit 3; }
  touch .deps/.ok
fi
mkdir -p .work evidence replays
exit 0
